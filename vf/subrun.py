"""Runs a clause's check function on a list of cases in THIS interpreter and prints one JSON document with the outcome of each case.
The parent (a clause of a property module) starts it with other interpreter flags - `python -O`, where `assert` statements are not
compiled - or another environment.  Usage: python [-O] -m vf.subrun <module> <function>   (cases as a JSON list on stdin)"""
import importlib
import json
import sys


def main():
    modname, fn = sys.argv[1], sys.argv[2]
    mod = importlib.import_module(modname)
    check = getattr(mod, fn)
    from vf.core import Violation, exc_violation, repo_frame, sk_config
    out = []
    for case in json.load(sys.stdin):
        try:
            with sk_config(case):
                check(case)
            out.append(dict(ok=True))
        except Violation as v:
            out.append(dict(ok=False, sig=v.sig, msg=v.msg[:400]))
        except Exception as e:  # noqa: BLE001
            if repo_frame(e) is not None:
                v = exc_violation(e)
                out.append(dict(ok=False, sig=v.sig, msg=v.msg[:400]))
            else:
                import traceback
                out.append(dict(ok=None, error=traceback.format_exc()[-1500:]))
    sys.stdout.write(json.dumps(dict(optimize=sys.flags.optimize, results=out)))


if __name__ == "__main__":
    main()
