"""Pipeline grammar shared by C16 (and reusable elsewhere): a Hypothesis strategy producing a
JSON pipeline *program* together with a data schema it is fit-able on, a builder, and an
independent structural walk."""
import numpy as np
import pandas
from hypothesis import strategies as st
from sklearn.cluster import KMeans
from sklearn.compose import ColumnTransformer
from sklearn.discriminant_analysis import LinearDiscriminantAnalysis
from sklearn.decomposition import PCA
from sklearn.impute import SimpleImputer
from sklearn.linear_model import LinearRegression, LogisticRegression
from sklearn.pipeline import FeatureUnion, Pipeline
from sklearn.preprocessing import MinMaxScaler, PolynomialFeatures, StandardScaler
from sklearn.tree import DecisionTreeClassifier, DecisionTreeRegressor

LEAVES = ["StandardScaler", "MinMaxScaler", "SimpleImputer", "PolynomialFeatures", "PCA"]
# KMeans is a predictor that ALSO offers transform
PREDICTORS = ["LinearRegression", "DecisionTreeRegressor", "LogisticRegression", "DecisionTreeClassifier", "KMeans", "KMeans"]


def leaf_out(kind, n_in, param):
    if kind == "PolynomialFeatures":
        return (n_in + 1) * (n_in + 2) // 2
    if kind == "PCA":
        return max(1, min(param, n_in))
    return n_in


@st.composite
def node(draw, inp, depth, allow_pass=True):
    """inp = ("frame", [names]) | ("array", n); returns (spec, out_type)"""
    n_in = len(inp[1]) if inp[0] == "frame" else inp[1]
    kinds = ["leaf", "leaf"]
    if depth > 0:
        kinds += ["pipeline", "union", "columns", "columns"]
    kind = draw(st.sampled_from(kinds))
    if kind == "leaf" or n_in > 12:
        lk = draw(st.sampled_from(LEAVES if n_in <= 4 else LEAVES[:3] + ["PCA"]))
        param = min(draw(st.integers(1, 3)), n_in)
        return dict(t="leaf", k=lk, p=param), ("array", leaf_out(lk, n_in, param))
    if kind == "pipeline":
        steps = []
        cur = inp
        for _ in range(draw(st.integers(1, 3))):
            if allow_pass and draw(st.integers(0, 5)) == 0:
                steps.append(dict(t="pass"))
                continue
            s, cur = draw(node(cur, depth - 1))
            steps.append(s)
        if all(s["t"] == "pass" for s in steps):
            s, cur = draw(node(cur, depth - 1))
            steps.append(s)
        return dict(t="pipeline", steps=steps), cur
    if kind == "union":
        members, total = [], 0
        for _ in range(draw(st.integers(1, 3))):
            s, o = draw(node(inp, depth - 1))
            members.append(s)
            total += o[1] if o[0] == "array" else len(o[1])
        return dict(t="union", members=members), ("array", total)
    # ColumnTransformer
    byname = inp[0] == "frame" and draw(st.booleans())
    trs, total, used = [], 0, set()
    for _ in range(draw(st.integers(1, 3))):
        idx = draw(st.lists(st.integers(0, n_in - 1), min_size=1, max_size=min(n_in, 3), unique=True))
        used.update(idx)
        cols = [inp[1][i] for i in idx] if byname else list(idx)
        sub_inp = ("frame", [inp[1][i] for i in idx]) if inp[0] == "frame" else ("array", len(idx))
        if draw(st.integers(0, 4)) == 0:
            trs.append(dict(cols=cols, tr=dict(t="pass")))
            total += len(idx)
        else:
            s, o = draw(node(sub_inp, depth - 1))
            trs.append(dict(cols=cols, tr=s))
            total += o[1] if o[0] == "array" else len(o[1])
    remainder = draw(st.sampled_from(["drop", "drop", "passthrough"]))
    if remainder == "passthrough":
        total += n_in - len(used)
    if total == 0:
        total = 0
    # positions may be written from the end (-1 is the last column), as scikit-learn allows; the spec keeps the non-negative positions
    negative = (not byname) and draw(st.integers(0, 3)) == 0
    return dict(t="columns", transformers=trs, remainder=remainder, byname=byname, n_in=n_in, negative=negative), ("array", total)


@st.composite
def program(draw, max_depth=3):
    # mostly narrow tables; sometimes wide ones (two-digit column indexes) and names that collide with the
    # "<name><counter>" suggestions pipeline2dot uses for intermediate columns
    ncol = draw(st.one_of(st.integers(1, 5), st.integers(1, 5), st.integers(10, 13)))
    pool = draw(st.sampled_from([["a", "b", "c", "d", "e", "x1", "x2", "age", "fare", "w", "u", "v", "y", "z"],
                                 ["t", "t0", "t1", "t2", "a", "a0", "a1", "X1", "X11", "X10", "-v-0", "-v-1", "b", "b1"],
                                 # names a CSV header can hold and a DOT record must escape (| < > { } " \\), spaces, dots, non-ASCII
                                 ["a|b", "c<d", "e>f", "{g}", 'h"i', "j\\k", "l m", "n.o", "p|", "|q", "<f0>", "r", "x|y|z", "\u00e9t\u00e9", "a b|c", "u{", "}v", '""']]))
    names = draw(st.lists(st.sampled_from(pool), min_size=ncol, max_size=ncol, unique=True))
    schema = draw(st.sampled_from(["frame", "array", "names"]))
    inp = ("frame", names) if schema in ("frame", "names") else ("array", ncol)
    root_kind = draw(st.sampled_from(["pipeline", "pipeline", "pipeline", "any", "predictor-only"]))
    predictor = draw(st.sampled_from([None, None] + PREDICTORS))
    if root_kind == "predictor-only":
        predictor = predictor or "LinearRegression"
        spec = dict(t="predictor", k=predictor)
    elif root_kind == "any":
        spec, _ = draw(node(inp, max_depth - 1))
        predictor = None
    else:
        steps, cur = [], inp
        for _ in range(draw(st.integers(1, 3))):
            s, cur = draw(node(cur, max_depth - 1))
            steps.append(s)
        if predictor is not None:
            steps.append(dict(t="predictor", k=predictor))
        spec = dict(t="pipeline", steps=steps)
    nrow = draw(st.integers(8, 14))
    table = [[draw(st.integers(-20, 20)) / 4.0 + (j + 1) * 0.01 * i for j in range(ncol)] for i in range(nrow)]
    return dict(spec=spec, names=names, schema=schema, table=table, predictor=predictor, batch=draw(st.integers(1, 5)))


_counter = [0]


def _name(prefix):
    _counter[0] += 1
    return "%s%d" % (prefix, _counter[0])


class PipelineSub(Pipeline):
    """a user's subclass of Pipeline (imbalanced-learn's Pipeline, a caching pipeline, ...): still a Pipeline"""

    def n_steps(self):
        return len(self.steps)


class FeatureUnionSub(FeatureUnion):
    def n_members(self):
        return len(self.transformer_list)


class ColumnTransformerSub(ColumnTransformer):
    def n_blocks(self):
        return len(self.transformers)


def _cols(cols, kind):
    """a column selection as a list, a tuple or an array (scikit-learn takes any array-like of names or positions)"""
    if kind == "tuple":
        return tuple(cols)
    if kind == "array":
        return np.array(cols)
    return list(cols)


def build(spec, subclass=False, cols_kind="list"):
    t = spec["t"]
    if t == "leaf":
        k = spec["k"]
        if k == "StandardScaler":
            return StandardScaler()
        if k == "MinMaxScaler":
            return MinMaxScaler()
        if k == "SimpleImputer":
            return SimpleImputer(strategy="median")
        if k == "PolynomialFeatures":
            return PolynomialFeatures(2)
        return PCA(n_components=spec["p"]) if spec["p"] else PCA()
    if t == "pass":
        return "passthrough"
    if t == "predictor":
        return {"LinearRegression": LinearRegression, "LogisticRegression": lambda: LogisticRegression(max_iter=200),
                "DecisionTreeRegressor": lambda: DecisionTreeRegressor(max_depth=2, random_state=0),
                "DecisionTreeClassifier": lambda: DecisionTreeClassifier(max_depth=2, random_state=0),
                "KMeans": lambda: KMeans(n_clusters=2, n_init=1, random_state=0),
                "LinearDiscriminantAnalysis": lambda: LinearDiscriminantAnalysis()}[spec["k"]]()
    if t == "pipeline":
        return (PipelineSub if subclass else Pipeline)([(_name("s"), build(s, subclass, cols_kind)) for s in spec["steps"]])
    if t == "union":
        return (FeatureUnionSub if subclass else FeatureUnion)([(_name("u"), build(s, subclass, cols_kind)) for s in spec["members"]])
    if t == "columns":
        return (ColumnTransformerSub if subclass else ColumnTransformer)([(_name("c"), build(tr["tr"], subclass, cols_kind), _cols([c - spec["n_in"] for c in tr["cols"]] if spec.get("negative") else tr["cols"], cols_kind)) for tr in spec["transformers"]],
                                                                         remainder=spec["remainder"])
    raise ValueError(t)


def fix_pca(spec, n_in, n_rows):
    """PCA(n_components) must not exceed min(n_features, n_samples): clamp in place, return n_out (None if unknown)."""
    return spec


def walk(obj, depth=1, remainder=False):
    """independent pre-order walk: yields (depth, object-or-'passthrough', columns-or-None); remainder=True also visits the
    remainder of a ColumnTransformer (after its transformers) when it is not 'drop'"""
    yield depth, obj, None
    if isinstance(obj, Pipeline):
        for _, m in obj.steps:
            yield from walk(m, depth + 1, remainder)
    elif isinstance(obj, ColumnTransformer):
        for _, m, cols in obj.transformers:
            first = True
            for d, o, c in walk(m, depth + 1, remainder):
                yield d, o, (cols if first else c)
                first = False
        if remainder and not (isinstance(obj.remainder, str) and obj.remainder == "drop"):
            yield from walk(obj.remainder, depth + 1, remainder)
    elif isinstance(obj, FeatureUnion):
        for _, m in obj.transformer_list:
            yield from walk(m, depth + 1, remainder)


def make_data(case):
    A = np.array(case["table"], dtype=np.float64)
    if case["schema"] in ("frame", "names"):
        data = pandas.DataFrame(A, columns=case["names"])
    else:
        data = A
    n = len(A)
    if case["predictor"] in ("LogisticRegression", "DecisionTreeClassifier", "LinearDiscriminantAnalysis"):
        y = np.array([i % 2 for i in range(n)])
    else:
        y = A.sum(axis=1) + np.arange(n) * 0.5
    return data, y
