"""Estimator registry shared by the cross-cutting properties C01-C04 (and C15).

A *spec* is plain JSON: {"cls": name, "params": {...}} where a parameter value may be a
primitive, a nested spec, a list of specs, or {"fn": name} (a module-level callable).
`build(spec)` makes the object; `ENTRIES[name]` knows which data the class is fitted on,
how to fit it and which public outputs identify the fitted model (the *fingerprint*).
"""
from . import loader
from . import estimators as H

import copy
import numpy as np
import pandas
from hypothesis import strategies as st
from sklearn.base import BaseEstimator
from sklearn.cluster import KMeans
from sklearn.decomposition import PCA
from sklearn.dummy import DummyRegressor
from sklearn.linear_model import LinearRegression, LogisticRegression, Ridge
from sklearn.naive_bayes import GaussianNB
from sklearn.svm import LinearSVC
from sklearn.neighbors import KNeighborsClassifier, KNeighborsRegressor
from sklearn.pipeline import Pipeline
from sklearn.preprocessing import KBinsDiscretizer, MinMaxScaler, StandardScaler
from sklearn.tree import DecisionTreeClassifier, DecisionTreeRegressor


# ----------------------------------------------------------------------------- callables
def fn_predict_twice(model_or_X, X=None):
    raise NotImplementedError


def col_sum(X):
    X = np.asarray(X, dtype=np.float64)
    return X.sum(axis=1)


def col_first_two(X):
    X = np.asarray(X, dtype=np.float64)
    return np.hstack([X[:, :1], X[:, :1] * 2.0])


def tok_any(doc):
    """the identity-tokenizer idiom for corpora that are already tokenized (a document is a list of tokens); a string is split on blanks"""
    return doc if isinstance(doc, list) else doc.split()


FUNCTIONS = {"col_sum": col_sum, "col_first_two": col_first_two, "np.log1p": np.log1p, "np.expm1": np.expm1, "tok_any": tok_any}

SKLEARN = {c.__name__: c for c in [KMeans, PCA, DummyRegressor, LinearRegression, LogisticRegression, Ridge, GaussianNB,
                                   KBinsDiscretizer, MinMaxScaler, StandardScaler, DecisionTreeClassifier, DecisionTreeRegressor, Pipeline, LinearSVC, KNeighborsClassifier, KNeighborsRegressor]}
HARNESS = {c.__name__: c for c in [H.RecordingRegressor, H.RecordingClassifier, H.CentroidClassifier, H.FailingRegressor,
                                   H.FailingClassifier, H.FailingTransformer, H.FakeTSNE, H.KwargsRegressor, H.KwargsClassifier, H.SkewedClassifier, H.DomainClassifier]}

_MODS = {
    "ApproximateNMFPredictor": "mlmodel.anmf_predictor", "CategoriesToIntegers": "mlmodel.categories_to_integers",
    "ClassifierAfterKMeans": "mlmodel.classification_kmeans", "ConstraintKMeans": "mlmodel.kmeans_constraint",
    "DecisionTreeLogisticRegression": "mlmodel.decision_tree_logreg", "ExtendedFeatures": "mlmodel.extended_features",
    "IntervalRegressor": "mlmodel.interval_regressor", "KMeansL1L2": "mlmodel.kmeans_l1",
    "PiecewiseRegressor": "mlmodel.piecewise_estimator", "PiecewiseClassifier": "mlmodel.piecewise_estimator",
    "PiecewiseTreeRegressor": "mlmodel.piecewise_tree_regression", "PredictableTSNE": "mlmodel.predictable_tsne",
    "QuantileLinearRegression": "mlmodel.quantile_regression", "QuantileMLPRegressor": "mlmodel.quantile_mlpregressor",
    "TraceableCountVectorizer": "mlmodel.sklearn_text", "TraceableTfidfVectorizer": "mlmodel.sklearn_text",
    "FunctionReciprocalTransformer": "mlmodel.sklearn_transform_inv_fct", "PermutationReciprocalTransformer": "mlmodel.sklearn_transform_inv_fct",
    "TransformedTargetRegressor2": "mlmodel.target_predictors", "TransformedTargetClassifier2": "mlmodel.target_predictors",
    "TransferTransformer": "mlmodel.transfer_transformer",
    "SkBaseTransformLearner": "sklapi.sklearn_base_transform_learner", "SkBaseTransformStacking": "sklapi.sklearn_base_transform_stacking",
    "SkBaseLearner": "sklapi.sklearn_base_learner", "SkBaseClassifier": "sklapi.sklearn_base_classifier",
    "SkBaseRegressor": "sklapi.sklearn_base_regressor", "SkBaseTransform": "sklapi.sklearn_base_transform", "SkBase": "sklapi.sklearn_base",
    "ARTimeSeriesRegressor": "timeseries.ar", "DummyTimeSeriesRegressor": "timeseries.dummies", "TimeSeriesDifference": "timeseries.preprocessing",
}


def resolve(name):
    if name in _MODS:
        return getattr(loader.module(_MODS[name]), name)
    if name in SKLEARN:
        return SKLEARN[name]
    if name in HARNESS:
        return HARNESS[name]
    raise KeyError(name)


def is_spec(v):
    return isinstance(v, dict) and "cls" in v


def build_value(v):
    if is_spec(v):
        return build(v)
    if isinstance(v, dict) and "fn" in v:
        return FUNCTIONS[v["fn"]]
    if isinstance(v, dict) and "array" in v:
        return np.array(v["array"], dtype=np.float64)
    if isinstance(v, dict) and "tuple" in v:
        return tuple(v["tuple"])
    if isinstance(v, list) and v and all(is_spec(x) for x in v):
        return [build(x) for x in v]
    if isinstance(v, list) and v and all(isinstance(x, list) and len(x) == 2 and isinstance(x[0], str) and is_spec(x[1]) for x in v):
        return [(x[0], build(x[1])) for x in v]          # Pipeline steps
    return v


def build(spec):
    cls = resolve(spec["cls"])
    kw = {k: build_value(v) for k, v in spec.get("params", {}).items()}
    obj = cls(**kw)
    if spec.get("prefit"):
        # TransferTransformer wraps an already fitted estimator
        pass
    return obj


# ----------------------------------------------------------------------------- parameter comparison
def norm_param(v, depth=0):
    """structural, JSON-like image of a parameter value (estimators by type and params recursively)"""
    if isinstance(v, (BaseEstimator,)) or (hasattr(v, "get_params") and not isinstance(v, type)):
        try:
            p = v.get_params(deep=False)
        except TypeError:
            p = v.get_params()
        return {"__cls__": type(v).__name__, "params": {str(k): norm_param(x, depth + 1) for k, x in sorted(p.items(), key=lambda kv: str(kv[0]))}}
    if isinstance(v, np.ndarray):
        return {"__array__": v.tolist(), "dtype": str(v.dtype)}
    if isinstance(v, (list, tuple)):
        return [norm_param(x, depth + 1) for x in v]
    if isinstance(v, dict):
        return {str(k): norm_param(x, depth + 1) for k, x in sorted(v.items(), key=lambda kv: str(kv[0]))}
    if isinstance(v, np.generic):
        return v.item()
    if callable(v):
        return {"__callable__": getattr(v, "__name__", repr(type(v)))}
    if isinstance(v, float) and np.isnan(v):
        return "nan"
    if isinstance(v, (str, int, float, bool)) or v is None:
        return v
    return repr(v)


def params_image(est, deep=True):
    return {str(k): norm_param(v) for k, v in est.get_params(deep=deep).items()}


# ----------------------------------------------------------------------------- inner-estimator spec pools
def s_regressor(draw, recording=False, kwargs_fit=False):
    # kwargs_fit: also a duck-typed model whose fit(X, y, **fit_params) names no parameter (what meta-estimators' fit signatures look like)
    k = draw(st.sampled_from(["LinearRegression", "DecisionTreeRegressor", "DummyRegressor", "Ridge"] + (["RecordingRegressor"] if recording else [])
                             + (["KwargsRegressor"] if kwargs_fit else [])))
    if k == "LinearRegression":
        return dict(cls=k, params=dict(fit_intercept=draw(st.booleans())))
    if k == "DecisionTreeRegressor":
        return dict(cls=k, params=dict(max_depth=draw(st.integers(1, 3)), random_state=0))
    if k == "DummyRegressor":
        return dict(cls=k, params=dict(strategy=draw(st.sampled_from(["mean", "median"]))))
    if k == "Ridge":
        return dict(cls=k, params=dict(alpha=draw(st.sampled_from([0.5, 1.0, 2.0]))))
    # yield points inside fit / predict perturb the joblib thread schedules of the meta-estimators that run their inner fits in threads
    return dict(cls=k, params=dict(tag=draw(st.integers(0, 3)), yield_fit=draw(st.sampled_from([0, 0, 1, 2])), yield_predict=draw(st.sampled_from([0, 0, 1]))))


def s_classifier(draw, recording=False, linear_only=False, warm=False):
    pool = ["LogisticRegression", "DecisionTreeClassifier", "GaussianNB"] + (["RecordingClassifier"] if recording else [])
    if linear_only:
        pool = ["LogisticRegression"]
    k = draw(st.sampled_from(pool))
    if k == "LogisticRegression":
        if warm and draw(st.integers(0, 3)) == 0:
            # a warm-start capable model stopped early: its result depends on its previous state, so an estimator
            # fitted in place instead of on a clone shows in the next fit
            return dict(cls=k, params=dict(C=1.0, max_iter=3, warm_start=True))
        return dict(cls=k, params=dict(C=draw(st.sampled_from([0.5, 1.0, 4.0])), max_iter=300))
    if k == "DecisionTreeClassifier":
        return dict(cls=k, params=dict(max_depth=draw(st.integers(1, 3)), random_state=0))
    if k == "GaussianNB":
        return dict(cls=k, params=dict(var_smoothing=draw(st.sampled_from([1e-9, 1e-3]))))
    return dict(cls=k, params=dict(tag=draw(st.integers(0, 3)), yield_fit=draw(st.sampled_from([0, 0, 1, 2])), yield_predict=draw(st.sampled_from([0, 0, 1]))))


def s_transformer(draw):
    k = draw(st.sampled_from(["StandardScaler", "MinMaxScaler", "PCA"]))
    if k == "StandardScaler":
        return dict(cls=k, params=dict(with_mean=draw(st.booleans())))
    if k == "MinMaxScaler":
        return dict(cls=k, params=dict(clip=draw(st.booleans())))
    return dict(cls=k, params=dict(n_components=1))


def s_kmeans(draw):
    return dict(cls="KMeans", params=dict(n_clusters=draw(st.integers(1, 3)), n_init=1, random_state=draw(st.integers(0, 5))))


# ----------------------------------------------------------------------------- data
def d_table(draw, n_min=8, n_max=24, d_min=1, d_max=3):
    n = draw(st.integers(n_min, n_max))
    d = draw(st.integers(d_min, d_max))
    cell = st.integers(-32, 32).map(lambda v: v / 4.0)
    # a small ramp on the first column keeps the table from degenerating into identical rows (zero variance)
    X = [[draw(cell) + (i / 8.0 if j == 0 else 0.0) for j in range(d)] for i in range(n)]
    return n, d, X


def _ordered(draw, X, y, w):
    """one data set in four arrives sorted by its target (grouped by class for labels): a table exported from a GROUP BY / ORDER BY"""
    how = draw(st.sampled_from([None, None, None, None, None, None, "by-y", "by-y-desc"]))
    if how is None:
        return X, y, w
    idx = sorted(range(len(y)), key=lambda i: y[i], reverse=(how == "by-y-desc"))
    return [X[i] for i in idx], [y[i] for i in idx], None if w is None else [w[i] for i in idx]


def d_reg(draw, **kw):
    n, d, X = d_table(draw, **kw)
    beta = [draw(st.integers(-8, 8)) / 4.0 for _ in range(d)]
    y = [sum(b * v for b, v in zip(beta, row)) + draw(st.integers(-16, 16)) / 8.0 for row in X]
    w = draw(st.one_of(st.none(), st.lists(st.integers(1, 8).map(lambda v: v / 2.0), min_size=n, max_size=n)))
    X, y, w = _ordered(draw, X, y, w)
    return dict(kind="reg", X=X, y=y, w=w)


def d_clf(draw, n_classes=None, **kw):
    n, d, X = d_table(draw, **kw)
    k = n_classes or draw(st.integers(2, 3))
    pool = draw(st.lists(st.integers(-3, 9), min_size=k, max_size=k, unique=True))
    centres = [[draw(st.integers(-16, 16)) / 2.0 for _ in range(d)] for _ in range(k)]
    z = [draw(st.integers(0, k - 1)) for _ in range(n)]
    for i in range(k):
        z[i] = i
        z[-1 - i] = i
        if n >= 3 * k:
            z[k + i] = i      # at least three rows per class (k-means per class with up to 3 clusters)
    X = [[centres[zi][j] + X[i][j] / 4.0 for j in range(d)] for i, zi in enumerate(z)]
    w = draw(st.one_of(st.none(), st.lists(st.integers(1, 8).map(lambda v: v / 2.0), min_size=n, max_size=n)))
    X, y, w = _ordered(draw, X, [pool[i] for i in z], w)
    return dict(kind="clf", X=X, y=y, w=w)


def d_cluster(draw, **kw):
    n, d, X = d_table(draw, **kw)
    return dict(kind="cluster", X=X, y=None, w=None)


def d_nmf(draw):
    n = draw(st.integers(5, 12))
    d = draw(st.integers(2, 4))
    X = [[draw(st.integers(0, 16)) / 4.0 for _ in range(d)] for _ in range(n)]
    for j in range(d):
        X[j % n][j] += 1.0
    return dict(kind="nmf", X=X, y=None, w=None)


WORDS = ["the", "cat", "dog", "is", "bird", "fish", "and", "first", "document", "second"]


def d_text(draw):
    n = draw(st.integers(2, 8))
    docs = [" ".join(draw(st.lists(st.sampled_from(WORDS), min_size=1, max_size=6))) for _ in range(n)]
    docs[0] = docs[0] + " cat dog"
    return dict(kind="text", X=docs, y=None, w=None)


def d_frame(draw, vary_columns=False):
    n = draw(st.integers(2, 8))
    cats = ["a", "b", "c", "d"]
    X = dict(c0=[draw(st.sampled_from(cats)) for _ in range(n)], c1=[draw(st.sampled_from(cats[:2])) for _ in range(n)],
             num=[draw(st.integers(-8, 8)) / 2.0 for _ in range(n)])
    if vary_columns and draw(st.booleans()):
        del X["c1"]                      # a frame without the second categorical column
    return dict(kind="frame", X=X, y=None, w=None)


def d_ts(draw):
    n = draw(st.integers(12, 24))
    y = [draw(st.integers(-40, 40)) / 4.0 for _ in range(n)]
    X = [[draw(st.integers(-8, 8)) / 2.0] for _ in range(n)]
    return dict(kind="ts", X=X, y=y, w=None)


def materialize(data):
    """JSON data -> python objects (fresh copies every call)"""
    kind = data["kind"]
    if kind == "text":
        return list(data["X"]), None, None
    if kind == "frame":
        cols = {}
        for c in ("c0", "c1"):
            if c in data["X"]:
                cols[c] = pandas.Series(np.array(data["X"][c], dtype=object), dtype=object)
        cols["num"] = np.array(data["X"]["num"], dtype=np.float64)
        return pandas.DataFrame(cols), None, None
    X = np.array(data["X"], dtype=np.float64)
    y = None if data["y"] is None else np.array(data["y"])
    if y is not None and kind in ("reg", "ts", "target"):
        y = y.astype(np.float64)
    w = None if data.get("w") is None else np.array(data["w"], dtype=np.float64)
    return X, y, w


def subset(obj, idx):
    if isinstance(obj, list):
        return [obj[i] for i in idx]
    if isinstance(obj, pandas.DataFrame):
        return obj.iloc[list(idx)]
    return obj[np.asarray(idx, dtype=int)]


def nrows(obj):
    return len(obj)


# ----------------------------------------------------------------------------- entries
class Entry:
    name = None
    kind = "reg"
    rowwise = True            # C04: outputs are per-row functions
    methods = ("predict",)
    exact = True              # fingerprints comparable exactly under one thread
    uses_weights = True
    deterministic_under_seed = True

    def spec(self, draw):
        raise NotImplementedError

    def data(self, draw):
        return {"reg": d_reg, "clf": d_clf, "cluster": d_cluster, "nmf": d_nmf, "text": d_text, "frame": d_frame, "ts": d_ts}[self.kind](draw)

    def probe(self, data, X, y):
        """rows the fingerprint is taken on"""
        return subset(X, list(range(min(6, nrows(X)))))

    def fit(self, est, X, y, w):
        if self.kind in ("cluster", "nmf", "text", "frame"):
            return est.fit(X)
        if w is not None and self.uses_weights:
            return est.fit(X, y, sample_weight=w)
        return est.fit(X, y)

    def available(self, est):
        return [m for m in self.methods if _has_method(est, m)]

    def call(self, est, method, Z):
        out = getattr(est, method)(Z)
        if hasattr(out, "toarray"):
            out = out.toarray()
        if isinstance(out, pandas.DataFrame):
            out = out.astype(object).where(out.notna(), None).values
        return np.asarray(out)

    def attributes(self, est):
        return {}

    def prepare(self, est, X):
        return X


def _has_method(est, m):
    try:
        return callable(getattr(est, m))
    except Exception:  # noqa: BLE001 - available_if raises AttributeError subclasses
        return False


ENTRIES = {}


def register(cls):
    e = cls()
    ENTRIES[e.name] = e
    return cls


@register
class _QLR(Entry):
    name = "QuantileLinearRegression"
    methods = ("predict",)

    def spec(self, draw):
        return dict(cls=self.name, params=dict(quantile=draw(st.sampled_from([0.5, 0.25, 0.75, 0.1])), max_iter=draw(st.sampled_from([3, 10])),
                                               fit_intercept=draw(st.booleans()), positive=draw(st.booleans()), delta=draw(st.sampled_from([1e-4, 1e-3]))))

    def data(self, draw):
        # the statement's domain: continuous noise (no residual is exactly zero, otherwise IRLS weights vanish)
        d = d_reg(draw)
        n = len(d["y"])
        noise = draw(st.lists(st.integers(-999983, 999983).filter(lambda v: v != 0), min_size=n, max_size=n, unique=True))
        d["y"] = [v + (1 if e > 0 else -1) * (0.01 + 0.99 * abs(e) / 999983.0) for v, e in zip(d["y"], noise)]
        return d

    def attributes(self, est):
        return dict(coef_=est.coef_, intercept_=est.intercept_)


@register
class _KML(Entry):
    name = "KMeansL1L2"
    kind = "cluster"
    methods = ("predict", "transform")

    def spec(self, draw):
        spec = dict(cls=self.name, params=dict(n_clusters=draw(st.integers(1, 3)), norm=draw(st.sampled_from(["L1", "L2"])),
                                               init=draw(st.sampled_from(["k-means++", "random"])), n_init=draw(st.integers(1, 2)),
                                               random_state=draw(st.one_of(st.none(), st.integers(0, 9))), max_iter=draw(st.sampled_from([5, 20, 6, 21]))))
        # copy_x=False is only drawn for the L1 norm: scikit-learn documents that its own (L2) fit then centres the caller's array in
        # place and puts it back with rounding differences; the L1 algorithm of this class has no reason to touch it
        if spec["params"]["norm"] == "L1" and draw(st.integers(0, 2)) == 0:
            spec["params"]["copy_x"] = False
        return spec

    def attributes(self, est):
        return dict(cluster_centers_=est.cluster_centers_, labels_=est.labels_, inertia_=est.inertia_)


@register
class _CKM(Entry):
    name = "ConstraintKMeans"
    kind = "cluster"
    methods = ("predict", "transform")

    def spec(self, draw):
        k = draw(st.integers(1, 3))
        init = draw(st.sampled_from(["k-means++", "k-means++", "random", "array"]))
        if init == "array":
            # explicit initial centres (the registry's cluster data for this class always has two columns)
            init = {"array": [[draw(st.integers(-16, 16)) / 2.0, draw(st.integers(-16, 16)) / 2.0] for _ in range(k)]}
        strategy = draw(st.sampled_from(["distance", "gain", "distance", "gain", "weights"]))
        return self._consistent(dict(cls=self.name, params=dict(n_clusters=k, strategy=strategy, init=init,
                                               kmeans0=draw(st.booleans()), random_state=draw(st.one_of(st.none(), st.integers(0, 9))),
                                               max_iter=draw(st.sampled_from([4, 10, 5, 7, 11])), n_init=draw(st.sampled_from([1, 3])),
                                               balanced_predictions=draw(st.booleans()))))

    @staticmethod
    def _consistent(spec):
        # strategy='weights' with balanced predictions is a documented refusal (assertion in predict); with a random start (kmeans0=False) its
        # own assertion "nan" fires on about 4% of small data sets (an empty cluster) - outside every listed statement (C07 is about
        # 'distance' and 'gain'), excluded by construction, see BUILDLOG
        if spec["params"]["strategy"] == "weights":
            spec["params"]["balanced_predictions"] = False
            spec["params"]["kmeans0"] = True
        return spec

    def data(self, draw):
        return d_cluster(draw, d_min=2, d_max=2)

    def available(self, est):
        return ["predict"] if est.balanced_predictions else ["predict", "transform"]

    def attributes(self, est):
        return dict(cluster_centers_=est.cluster_centers_, labels_=est.labels_)


@register
class _EF(Entry):
    name = "ExtendedFeatures"
    kind = "cluster"
    methods = ("transform",)

    def spec(self, draw):
        return dict(cls=self.name, params=dict(kind=draw(st.sampled_from(["poly", "poly-slow"])), poly_degree=draw(st.integers(1, 3)),
                                               poly_interaction_only=draw(st.booleans()), poly_include_bias=draw(st.booleans())))

    def attributes(self, est):
        return dict(n_output_features_=est.n_output_features_)


@register
class _PTR(Entry):
    name = "PiecewiseTreeRegressor"
    methods = ("predict", "apply")
    uses_weights = False

    def spec(self, draw):
        return dict(cls=self.name, params=dict(criterion=draw(st.sampled_from(["mselin", "simple"])), max_depth=draw(st.integers(1, 3)),
                                               min_samples_leaf=draw(st.integers(1, 4)), random_state=0))

    def fit(self, est, X, y, w):
        return est.fit(np.ascontiguousarray(X), y)


@register
class _PR(Entry):
    name = "PiecewiseRegressor"
    methods = ("predict", "transform_bins")

    def _binner(self, draw, clf=False):
        k = draw(st.sampled_from(["tree", "bins", "kbins"]))
        if k == "tree":
            return dict(cls="DecisionTreeClassifier" if clf else "DecisionTreeRegressor", params=dict(max_depth=draw(st.integers(1, 3)), min_samples_leaf=draw(st.integers(1, 3)), random_state=0))
        if k == "bins":
            return "bins"
        return dict(cls="KBinsDiscretizer", params=dict(n_bins=draw(st.integers(2, 3)), strategy=draw(st.sampled_from(["uniform", "quantile"]))))

    def spec(self, draw):
        return dict(cls=self.name, params=dict(binner=self._binner(draw), estimator=s_regressor(draw, recording=True), n_jobs=draw(st.sampled_from([None, 1, 2]))))


@register
class _PC(_PR):
    name = "PiecewiseClassifier"
    kind = "clf"
    methods = ("predict", "predict_proba", "decision_function", "transform_bins")

    def spec(self, draw):
        # one local model in five refuses to extrapolate (raises outside its own training box): a bucket's model then has a narrower
        # domain than the fallback trained on everything
        inner = s_classifier(draw, recording=True, warm=True) if draw(st.integers(0, 4)) else dict(cls="DomainClassifier", params=dict(scale=draw(st.sampled_from([1.0, 0.5]))))
        return dict(cls=self.name, params=dict(binner=self._binner(draw, clf=True), estimator=inner,
                                               n_jobs=draw(st.sampled_from([None, 1, 2])), random_state=draw(st.one_of(st.none(), st.integers(0, 9)))))

    def available(self, est):
        ms = ["predict", "predict_proba", "transform_bins"]
        inner = est.estimator
        if hasattr(inner, "decision_function") and not isinstance(inner, H.RecordingClassifier):
            ms.append("decision_function")
        return ms


@register
class _IR(Entry):
    name = "IntervalRegressor"
    methods = ("predict", "predict_all", "predict_sorted")

    def spec(self, draw):
        # half of the configurations train in two threads, with a recording base whose fits pause for varying times
        est = s_regressor(draw, recording=True)
        if draw(st.booleans()):
            est = dict(cls="RecordingRegressor", params=dict(tag=draw(st.integers(0, 3)), yield_fit=draw(st.sampled_from([1, 2, 3])), yield_predict=0))
        return dict(cls=self.name, params=dict(estimator=est, n_estimators=draw(st.integers(1, 5)),
                                               alpha=draw(st.sampled_from([0.75, 1.0, 1.5])), n_jobs=draw(st.sampled_from([None, 1, 2, 2]))))


@register
class _CAK(Entry):
    name = "ClassifierAfterKMeans"
    kind = "clf"
    methods = ("predict", "predict_proba", "decision_function")

    def spec(self, draw):
        return dict(cls=self.name, params=dict(estimator=s_classifier(draw, warm=True), clus=s_kmeans(draw)))

    def data(self, draw):
        d = d_clf(draw, n_min=12, n_max=24)
        if draw(st.integers(0, 3)) == 0:
            # one class is a single point repeated (fewer distinct points than clusters: its k-means converges on duplicated centres)
            lab = d["y"][0]
            first = list(d["X"][0])
            d["X"] = [list(first) if yi == lab else row for row, yi in zip(d["X"], d["y"])]
        return d

    def available(self, est):
        ms = ["predict", "predict_proba"]
        if hasattr(est.estimator, "decision_function"):
            ms.append("decision_function")
        return ms


@register
class _DTLR(Entry):
    name = "DecisionTreeLogisticRegression"
    kind = "clf"
    methods = ("predict", "predict_proba", "decision_path")

    def spec(self, draw):
        # min_samples_split is documented as a count or a fraction of the training set
        return dict(cls=self.name, params=dict(estimator=s_classifier(draw, linear_only=draw(st.booleans()), warm=True), max_depth=draw(st.integers(1, 4)),
                                               min_samples_leaf=draw(st.integers(1, 3)), fit_improve_algo=draw(st.sampled_from(["auto", "none", "intercept_sort"])),
                                               min_samples_split=draw(st.sampled_from([2, 2, 4, 0.25, 0.5])),
                                               gamma=draw(st.sampled_from([1.0, 2.0]))))

    def data(self, draw):
        return d_clf(draw, n_classes=2, n_min=10, n_max=24)

    def attributes(self, est):
        return dict(n_nodes_=est.n_nodes_, classes_=est.classes_)


@register
class _ANMF(Entry):
    name = "ApproximateNMFPredictor"
    kind = "nmf"
    methods = ("predict",)
    exact = False

    def spec(self, draw):
        # None is a value like any other for the parameters NMF documents as optional (full rank, default initialisation)
        return dict(cls=self.name, params=dict(force_positive=draw(st.booleans()), n_components=draw(st.sampled_from([1, 2, 1, 2, None])),
                                               random_state=draw(st.integers(0, 5)),
                                               max_iter=draw(st.sampled_from([50, 100])), init=draw(st.sampled_from(["random", "nndsvda", None]))))


@register
class _CTI(Entry):
    name = "CategoriesToIntegers"
    kind = "frame"
    methods = ("transform",)

    def spec(self, draw):
        remove = draw(st.sampled_from([None, None, ["c0=a"]]))
        # explicit column lists may name the columns in another order than the frame's
        return dict(cls=self.name, params=dict(columns=draw(st.sampled_from([None, None, ["c0"], ["c1", "c0"], ["c0", "c1"]])), remove=remove,
                                               skip_errors=True if remove else draw(st.booleans()), single=False if remove else draw(st.booleans())))

    def data(self, draw):
        return d_frame(draw, vary_columns=True)

    @staticmethod
    def _with_columns(est, X):
        """configuration and frame are drawn independently: a frame lacking a column the configuration names gets it (constant)"""
        missing = [c for c in (est.columns or []) if c not in X.columns]
        if missing:
            X = X.copy()
            for c in missing:
                X[c] = pandas.Series(np.array(["a"] * len(X), dtype=object), dtype=object, index=X.index)
        return X

    def fit(self, est, X, y, w):
        return est.fit(self._with_columns(est, X) if isinstance(X, pandas.DataFrame) else X)

    def call(self, est, method, Z):
        return Entry.call(self, est, method, self._with_columns(est, Z) if isinstance(Z, pandas.DataFrame) else Z)


@register
class _TCV(Entry):
    name = "TraceableCountVectorizer"
    kind = "text"
    methods = ("transform",)

    def spec(self, draw):
        a = draw(st.integers(1, 2))
        p = dict(ngram_range={"tuple": [a, draw(st.integers(a, 3))]}, lowercase=draw(st.booleans()), binary=draw(st.booleans()))
        how = draw(st.sampled_from(["default", "default", "pattern-with-space", "pretokenized"]))
        if how == "pattern-with-space":
            p["token_pattern"] = "[a-zA-Z ]{1,4}"          # the pattern of the classes' own docstring: a token may hold a blank
        elif how == "pretokenized":
            p.update(tokenizer={"fn": "tok_any"}, lowercase=False, token_pattern=None)     # documents handed over as lists of tokens
        return dict(cls=self.name, params=p)

    def prepare(self, est, X):
        """what the caller hands to fit / transform: with the identity tokenizer, documents that are lists of tokens"""
        if isinstance(X, list) and getattr(est, "tokenizer", None) is not None:
            return [d if isinstance(d, list) else d.split() for d in X]
        return X

    def fit(self, est, X, y, w):
        return est.fit(self.prepare(est, X))

    def call(self, est, method, Z):
        return Entry.call(self, est, method, self.prepare(est, Z))

    def attributes(self, est):
        return dict(vocabulary_=sorted((" ".join(k), int(v)) for k, v in est.vocabulary_.items()))


@register
class _TTV(_TCV):
    name = "TraceableTfidfVectorizer"

    def spec(self, draw):
        s = _TCV.spec(self, draw)
        s["cls"] = self.name
        s["params"]["use_idf"] = draw(st.booleans())
        return s


@register
class _PTSNE(Entry):
    name = "PredictableTSNE"
    methods = ("transform",)
    uses_weights = False

    def spec(self, draw):
        return dict(cls=self.name, params=dict(normalizer=draw(st.one_of(st.none(), st.just(dict(cls="StandardScaler", params={})))),
                                               transformer=draw(st.sampled_from([dict(cls="PCA", params=dict(n_components=1)),
                                                                                 dict(cls="FakeTSNE", params=dict(perplexity=5.0)),
                                                                                 dict(cls="FakeTSNE", params=dict(perplexity=30.0))])),
                                               estimator=s_regressor(draw),
                                               normalize=draw(st.booleans()), keep_tsne_outputs=draw(st.booleans())))

    def data(self, draw):
        return d_reg(draw, d_min=2, d_max=3)


@register
class _TTR2(Entry):
    name = "TransformedTargetRegressor2"
    methods = ("predict",)

    def spec(self, draw):
        return dict(cls=self.name, params=dict(regressor=s_regressor(draw), transformer=draw(st.sampled_from(["exp", "expm1", "exp(x)-1"]))))

    def data(self, draw):
        d = d_reg(draw)
        d["y"] = [max(-3.0, min(3.0, v / 4.0)) for v in d["y"]]
        return d


@register
class _TTC2(Entry):
    name = "TransformedTargetClassifier2"
    kind = "clf"
    methods = ("predict", "predict_proba")

    def spec(self, draw):
        tr = draw(st.sampled_from(["permute", "obj"]))
        if tr == "obj":
            tr = dict(cls="PermutationReciprocalTransformer", params=dict(random_state=draw(st.integers(0, 20))))
        return dict(cls=self.name, params=dict(classifier=s_classifier(draw, warm=True), transformer=tr))


@register
class _STL(Entry):
    name = "SkBaseTransformLearner"
    methods = ("transform",)
    uses_weights = False

    def spec(self, draw, flavour=0):
        # model and method are interdependent (a transformer has no predict): both configurations of a case wrap the same kind
        kind = ["reg", "tr", "nested-pipeline", "nested-learner"][flavour % 4]
        if kind.startswith("nested"):
            # keys containing 'model__' twice: a pipeline with a step named 'model', or a learner wrapping a learner
            inner = s_regressor(draw)
            if kind == "nested-pipeline":
                wrapped = dict(cls="Pipeline", params=dict(steps=[["scale", dict(cls="StandardScaler", params={})], ["model", inner]]))
                # (the default method guess looks at the Pipeline *class*, which always advertises transform: explicit method)
                return dict(cls=self.name, params=dict(model=wrapped, method="predict"))
            wrapped = dict(cls="SkBaseTransformLearner", params=dict(model=inner, method="predict"))
            return dict(cls=self.name, params=dict(model=wrapped, method=draw(st.sampled_from([None, "transform"]))))
        if kind == "reg":
            return dict(cls=self.name, params=dict(model=s_regressor(draw), method=draw(st.sampled_from([None, "predict", {"fn": "col_sum"}]))))
        return dict(cls=self.name, params=dict(model=s_transformer(draw), method=draw(st.sampled_from([None, "transform"]))))


@register
class _STS(Entry):
    name = "SkBaseTransformStacking"
    methods = ("transform",)
    uses_weights = False

    def spec(self, draw, n=None):
        n = n or draw(st.sampled_from([1, 2, 3, 12]))
        return dict(cls=self.name, params=dict(models=[s_regressor(draw) for _ in range(n)], method=draw(st.sampled_from([None, "predict"]))))


@register
class _TT(Entry):
    name = "TransferTransformer"
    methods = ("transform",)
    uses_weights = False

    def spec(self, draw):
        return dict(cls=self.name, params=dict(estimator=s_regressor(draw), method=draw(st.sampled_from([None, "predict"])),
                                               copy_estimator=draw(st.booleans()), trainable=True))



EXTRA = {}          # entries used by one property only (not part of the generic C01 / C02 / C03 sweeps)


class _TTF(Entry):
    """a frozen transfer (copy_estimator=True, trainable=False: the defaults) whose source estimator goes on living: `fit` trains the
    source, fits the transfer (which takes its snapshot), then trains the SAME source object again on other data.  What the transfer
    answers - before and after persistence - is the snapshot's business."""
    name = "TransferTransformer:frozen"
    methods = ("transform",)
    uses_weights = False

    def spec(self, draw):
        return dict(cls="TransferTransformer", params=dict(estimator=s_regressor(draw), method=draw(st.sampled_from([None, "predict"])),
                                                           copy_estimator=True, trainable=False))

    def fit(self, est, X, y, w):
        est.estimator.fit(X, y)
        est.fit(X, y)
        est.estimator.fit(np.asarray(X)[::-1] * 1.5 + 0.25, y)
        return est


EXTRA[_TTF.name] = _TTF()


def any_entry(name):
    return ENTRIES[name] if name in ENTRIES else EXTRA[name]


@register
class _PRT(Entry):
    """target transformer: fit(None, y), transform(X, y) -> (X, codes); closest=True maps unseen labels to the nearest seen one"""
    name = "PermutationReciprocalTransformer"
    kind = "target"
    methods = ("transform_y",)
    uses_weights = False

    def spec(self, draw):
        return dict(cls=self.name, params=dict(random_state=draw(st.one_of(st.none(), st.integers(0, 9))), closest=draw(st.booleans())))

    def data(self, draw):
        k = draw(st.integers(2, 5))
        pool = draw(st.lists(st.integers(-20, 40), min_size=k, max_size=k, unique=True))
        n = draw(st.integers(k, 12))
        z = [draw(st.integers(0, k - 1)) for _ in range(n)]
        for i in range(k):
            z[i] = i
        return dict(kind="target", X=[[float(i)] for i in range(n)], y=[pool[i] + 0.5 for i in z], w=None,
                    unseen=[draw(st.integers(-25, 45)) + 0.25 for _ in range(3)])

    def fit(self, est, X, y, w):
        return est.fit(None, np.asarray(y, dtype=np.float64))

    def probe(self, data, X, y):
        return np.array(list(y[:4]) + list(data.get("unseen", [])), dtype=np.float64)

    def available(self, est):
        return ["transform_y"]

    def call(self, est, method, Z):
        # Z is a vector of labels here; without closest=True an unseen label is a documented refusal: only seen labels are sent
        Z = np.asarray(Z, dtype=np.float64)
        if not est.closest:
            Z = np.array([z for z in Z.tolist() if z in est.permutation_], dtype=np.float64)
        return np.asarray(est.transform(None, Z)[1], dtype=np.float64)

    def attributes(self, est):
        # the reciprocal transformer is part of the fitted model: what it maps the codes back to
        inv = est.get_fct_inv()
        codes = np.array(sorted(int(v) for v in est.permutation_.values()), dtype=np.float64)
        back = np.asarray(inv.transform(None, codes)[1], dtype=np.float64)
        return dict(permutation_=sorted((float(k), int(v)) for k, v in est.permutation_.items()), inverse_of_codes=back)


# classes covered for the parameter protocol only (C01) --------------------------------------------------------------
PARAM_ONLY = {}


def param_only(name):
    def deco(f):
        PARAM_ONLY[name] = f
        return f
    return deco


@param_only("QuantileMLPRegressor")
def _p_qmlp(draw):
    return dict(cls="QuantileMLPRegressor", params=dict(hidden_layer_sizes={"tuple": [draw(st.integers(2, 6))]}, activation=draw(st.sampled_from(["relu", "tanh"])),
                                                        max_iter=draw(st.sampled_from([50, 100])), random_state=draw(st.integers(0, 5))))


@param_only("FunctionReciprocalTransformer")
def _p_frt(draw, flavour=0):
    # fct and fct_inv are interdependent (name => no fct_inv, callable => fct_inv required): both configurations of a
    # case are of the same flavour so that single-key set_params cannot build an invalid combination
    if flavour % 2 == 0:
        return dict(cls="FunctionReciprocalTransformer", params=dict(fct=draw(st.sampled_from(["log", "exp", "log1p", "expm1"]))))
    return dict(cls="FunctionReciprocalTransformer", params=dict(fct={"fn": "np.log1p"}, fct_inv={"fn": "np.expm1"}))


def _p_skbase(name):
    def f(draw, flavour=0):
        # kwargs holders: any key set (a set_params between different key sets is checked as "reports at least the given keys")
        keys = draw(st.lists(st.sampled_from(["alpha", "beta", "mode", "k"]), min_size=1, max_size=3, unique=True))
        params = {k: draw(st.sampled_from([1, 2, 0.5, "x", "y", None])) for k in keys}
        if draw(st.integers(0, 2)) == 0:
            # a model kept among the keyword parameters (a holder wrapping a learner)
            params["base"] = dict(cls="LogisticRegression", params=dict(C=draw(st.sampled_from([0.5, 1.0, 2.0, 4.0])), max_iter=draw(st.sampled_from([100, 300]))))
        return dict(cls=name, params=params)
    return f


for _n in ("SkBase", "SkBaseLearner", "SkBaseClassifier", "SkBaseRegressor", "SkBaseTransform"):
    PARAM_ONLY[_n] = _p_skbase(_n)


@param_only("DummyTimeSeriesRegressor")
def _p_dts(draw):
    d1 = 1      # delay2 > delay1 is validated by the constructor: delay1 is kept fixed so that single-key updates stay valid
    return dict(cls="DummyTimeSeriesRegressor", params=dict(past=draw(st.integers(1, 3)), delay1=d1, delay2=d1 + draw(st.integers(1, 2)),
                                                            use_all_past=draw(st.booleans()),
                                                            preprocessing=draw(st.one_of(st.none(), st.just(dict(cls="TimeSeriesDifference", params=dict(degree=1)))))))


@param_only("ARTimeSeriesRegressor")
def _p_arts(draw):
    d1 = 1
    return dict(cls="ARTimeSeriesRegressor", params=dict(estimator=draw(st.one_of(st.just("dummy"), st.just(dict(cls="LinearRegression", params={})))),
                                                         past=draw(st.integers(1, 3)), delay1=d1, delay2=d1 + draw(st.integers(1, 2)), use_all_past=draw(st.booleans())))


@param_only("TransferTransformer:interdependent")
def _p_tt_inter(draw):
    # `method` must exist on `estimator` (asserted by the constructor): the estimators below offer different sets of methods, so a
    # single-key set_params(estimator=...) or set_params(method=...) can leave a combination the constructor would refuse; set_params
    # itself does not validate (scikit-learn's convention) and must leave the other key alone
    offers = [("LogisticRegression", dict(C=draw(st.sampled_from([1.0, 0.5]))), [None, "predict_proba", "decision_function", "predict"]),
              ("DecisionTreeClassifier", dict(max_depth=draw(st.sampled_from([2, 3]))), [None, "predict_proba", "predict"]),
              ("GaussianNB", {}, [None, "predict_proba", "predict"]),
              ("LinearSVC", dict(C=draw(st.sampled_from([1.0, 0.5]))), [None, "decision_function", "predict"]),
              ("StandardScaler", {}, [None, "transform"]),
              ("LinearRegression", {}, [None, "predict"])]
    cls, params, methods = draw(st.sampled_from(offers))
    return dict(cls="TransferTransformer", params=dict(estimator=dict(cls=cls, params=params), method=draw(st.sampled_from(methods)),
                                                       copy_estimator=draw(st.booleans()), trainable=draw(st.booleans())))


@param_only("TimeSeriesDifference")
def _p_tsd(draw):
    return dict(cls="TimeSeriesDifference", params=dict(degree=draw(st.integers(1, 3))))


def all_class_names():
    return sorted(set(ENTRIES) | set(PARAM_ONLY))


def spec_for(name, draw, flavour=0):
    if name in ENTRIES:
        f = ENTRIES[name].spec
        if "flavour" in f.__code__.co_varnames[:f.__code__.co_argcount]:
            return f(draw, flavour)
        return f(draw)
    f = PARAM_ONLY[name]
    if "flavour" in f.__code__.co_varnames[:f.__code__.co_argcount]:
        return f(draw, flavour)
    return f(draw)


# ----------------------------------------------------------------------------- fingerprints
def fingerprint(entry, est, Z, methods=None):
    out = {}
    for m in (methods or entry.available(est)):
        out[m] = entry.call(est, m, Z)
    for k, v in entry.attributes(est).items():
        out["attr:" + k] = v
    return out


def same_fingerprint(a, b, exact=True, tol=1e-9):
    """returns None when equal, else a description of the first difference"""
    if set(a) != set(b):
        return "different outputs available: %r vs %r" % (sorted(a), sorted(b))
    for k in sorted(a):
        x, y = a[k], b[k]
        if isinstance(x, (list, tuple)) and not isinstance(x, np.ndarray):
            if list(x) != list(y):
                return "%s differs" % k
            continue
        x, y = np.asarray(x), np.asarray(y)
        if x.shape != y.shape:
            return "%s: shapes %r vs %r" % (k, x.shape, y.shape)
        if x.dtype.kind in "OUS" or y.dtype.kind in "OUS":
            if x.tolist() != y.tolist():
                return "%s differs" % k
            continue
        xf, yf = x.astype(np.float64), y.astype(np.float64)
        if exact:
            ok = np.array_equal(xf, yf, equal_nan=True)
        else:
            with np.errstate(all="ignore"):
                ok = bool(np.all((xf == yf) | (np.abs(xf - yf) <= tol * (1 + np.abs(yf))) | (np.isnan(xf) & np.isnan(yf))))
        if not ok:
            with np.errstate(all="ignore"):
                dmax = float(np.nanmax(np.abs(xf - yf))) if xf.size else 0.0
            return "%s differs (max abs difference %.3g)" % (k, dmax)
    return None
