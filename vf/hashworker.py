"""Worker of the C03 `interpreters` clause: reads a JSON list of sub-cases on stdin, fits each one in THIS interpreter (started with its own
PYTHONHASHSEED by the parent) and prints one JSON document: a list of canonical fingerprints (strings).  Run as `python -m vf.hashworker`.

Two interpreters given the same sub-cases must print the same document: same data, same parameters, same NumPy seed.  What differs between
them is only what the statement says must not matter: the salt of str/bytes hashes (iteration order of sets and of dict views built from
sets), object addresses, import order of unrelated modules.
"""
import json
import os
import sys


def canon(v):
    import numpy as np
    if isinstance(v, dict):
        return ["dict"] + [[repr(k) if not isinstance(k, str) else k, canon(x)] for k, x in v.items()]          # insertion order is part of the state
    if isinstance(v, (list, tuple)):
        return [canon(x) for x in v]
    if isinstance(v, np.ndarray):
        if v.dtype.kind == "f":
            return ["array", list(v.shape), [float(x).hex() if x == x else "nan" for x in v.ravel().tolist()]]
        return ["array", list(v.shape), [repr(x) for x in v.ravel().tolist()]]
    if isinstance(v, float):
        return float(v).hex() if v == v else "nan"
    if isinstance(v, (np.floating,)):
        return canon(float(v))
    if isinstance(v, (np.integer,)):
        return int(v)
    if v is None or isinstance(v, (int, str, bool)):
        return v
    return repr(v)


def labels_array(kind, words, z):
    import numpy as np
    if kind == "str-object":
        a = np.empty(len(z), dtype=object)
        for j, i in enumerate(z):
            a[j] = words[i]
        return a
    return np.array([words[i] for i in z])


def run(sub):
    import numpy as np
    from vf import loader
    from vf import registry as R
    from vf.estimators import CentroidClassifier
    kind = sub["kind"]
    if kind == "registry":
        entry = R.ENTRIES[sub["cls"]]
        est = R.build(sub["spec"])
        X, y, w = R.materialize(sub["data"])
        np.random.seed(sub["seed"])
        entry.fit(est, X, y, w)
        np.random.seed(sub["seed"] + 7)
        return canon(R.fingerprint(entry, est, entry.probe(sub["data"], X, y)))
    fct = loader.module("mlmodel.sklearn_transform_inv_fct")
    y = labels_array(sub["label_kind"], sub["words"], sub["z"])
    if kind == "permutation":
        t = fct.PermutationReciprocalTransformer(random_state=sub["random_state"])
        np.random.seed(sub["seed"])
        t.fit(None, y)
        codes = t.transform(None, y)[1]
        back = t.get_fct_inv().transform(None, codes)[1]
        return canon(dict(permutation=[[str(k), int(v)] for k, v in t.permutation_.items()], codes=np.asarray(codes), back=np.asarray(back)))
    if kind == "classifier":
        tp = loader.module("mlmodel.target_predictors")
        X = np.array(sub["X"], dtype=np.float64)[:len(y)]
        tr = "permute" if sub["random_state"] is None else fct.PermutationReciprocalTransformer(random_state=sub["random_state"])
        m = tp.TransformedTargetClassifier2(classifier=CentroidClassifier(), transformer=tr)
        np.random.seed(sub["seed"])
        m.fit(X, y)
        return canon(dict(classes=np.asarray(m.classes_), permutation=[[str(k), int(v)] for k, v in m.transformer_.permutation_.items()],
                          inner_classes=np.asarray(m.classifier_.classes_), centroids=np.asarray(m.classifier_.centroids_),
                          proba=np.asarray(m.predict_proba(X[:5])), pred=np.asarray(m.predict(X[:5]))))
    raise KeyError(kind)


def main():
    subs = json.load(sys.stdin)
    out = []
    for sub in subs:
        try:
            out.append(json.dumps(run(sub), sort_keys=False))
        except Exception as e:  # noqa: BLE001 - both interpreters must then fail alike; the parent compares the text
            out.append("raised:%s:%s" % (type(e).__name__, str(e)[:200]))
    sys.stdout.write(json.dumps(dict(hashseed=os.environ.get("PYTHONHASHSEED"), results=out)))


if __name__ == "__main__":
    main()
