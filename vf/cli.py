import argparse
import os
import sys
import traceback


def main():
    ap = argparse.ArgumentParser()
    ap.add_argument("prop")
    ap.add_argument("--tier", default=os.environ.get("VERIF_TIER", "quick"), choices=["quick", "thorough"])
    ap.add_argument("--replay", default=None)
    ap.add_argument("--clause", default=None)
    ap.add_argument("--scale", type=float, default=1.0)
    ap.add_argument("--jobs", type=int, default=None)
    a = ap.parse_args()
    try:
        seed = int(os.environ.get("VERIF_SEED", "1") or "1")
    except ValueError:
        seed = 1
    try:
        from vf import loader
        loader.install()
        from vf import core
        rc = core.run_property("vf.props.%s" % a.prop.lower(), a.tier, seed, replay=a.replay,
                               only_clause=a.clause, jobs=a.jobs, scale=a.scale)
    except Exception:  # noqa: BLE001
        traceback.print_exc()
        print("HARNESS ERROR (exit 2)")
        rc = 2
    sys.stdout.flush()
    sys.exit(rc)


if __name__ == "__main__":
    main()
