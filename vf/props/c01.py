"""C01 - parameter protocol: get_params / set_params / clone round trip for every estimator."""
from vf import loader
from vf.core import Clause, Outcome, Violation, require
from vf import registry as R

import copy
import numpy as np
from hypothesis import strategies as st
from sklearn.base import BaseEstimator, clone

PROPERTY = "C01"
RULE = ("For every class of the registry (all estimators, transformers and wrappers exported by mlmodel, sklapi and timeseries that can be "
        "imported here), Hypothesis draws two independent valid configurations A and B of that class (nested estimators of different "
        "types, model lists of 1-13 entries so that stacking indexes >= 10 occur, string and callable options, kwargs for the SkBase "
        "holders) and a history of operations on them: clone, set_params(all deep params of the other), set_params(one advertised key "
        "<- the sibling's value) for nested (model__C), prefixed (c_n_clusters, e_C), indexed (models_11__model__C) and whole-object "
        "(model, models, estimator, binner) keys. Oracle: structural images of get_params (estimators by type and params, arrays by "
        "value, callables by name): clone is unfitted with equal params; after set_params(**A) B reports A's params and, fitted on the "
        "same data under the same seed, gives the same outputs; a single-key set_params returns the estimator, changes that key to the "
        "value and leaves every unrelated key unchanged. Non-trivial: a step that changes a parameter, or A != B. Distinct by "
        "(class, specs, history).")
ASSUMPTIONS = ["values given to set_params always come from a sibling configuration of the same class, so they are valid by construction",
               "keys a class does not advertise through get_params are out of scope",
               "mlbatch and search_rank cannot be imported with the installed scikit-learn / without torch and are not covered"]
TOLERANCES = {"behaviour after set_params": "exact for deterministic models (one thread, one seed); 1e-9 for NMF"}


INTERDEPENDENT = ("TransferTransformer:interdependent",)
HOLDERS = ("SkBase", "SkBaseLearner", "SkBaseClassifier", "SkBaseRegressor", "SkBaseTransform")


def _related(k, key):
    if k == key or k.startswith(key + "__") or key.startswith(k + "__"):
        return True
    # scikit-learn composites: the `steps` / `transformer_list` / `transformers` list owns every named child below the same parent
    for a_, b_ in ((k, key), (key, k)):
        for lst in ("steps", "transformer_list", "transformers"):
            if a_ == lst or a_.endswith("__" + lst):
                if b_.startswith(a_[:-len(lst)]):
                    return True
    # indexed / prefixed conventions of the library's own wrappers
    for flat, parent in (("models_", "models"), ("e_", "estimator"), ("c_", "clus")):
        if (k.startswith(flat) and (key == parent or key.startswith(parent + "__"))) or (key.startswith(flat) and (k == parent or k.startswith(parent + "__"))):
            return True
    return False


def _guard(op, fn, facts):
    """an exception raised by get_params / set_params / clone on a valid configuration is a violation of the protocol"""
    try:
        return fn()
    except Violation:
        raise
    except Exception as e:  # noqa: BLE001
        raise Violation("%s:raises:%s" % (op, type(e).__name__), "%s: %s" % (type(e).__name__, str(e)[:300]), facts)


def _copy_value(v):
    if isinstance(v, BaseEstimator) or hasattr(v, "get_params"):
        try:
            return clone(v)
        except Exception:  # noqa: BLE001 - library wrappers that sklearn.clone cannot handle are deep-copied
            return copy.deepcopy(v)
    if isinstance(v, list) and v and all(hasattr(x, "get_params") for x in v):
        return [_copy_value(x) for x in v]
    if callable(v):
        return v
    return copy.deepcopy(v)


def _key_kind(k):
    if k.startswith("models_") and "__" in k:
        idx = k[len("models_"):].split("__")[0]
        return "indexed>=10" if idx.isdigit() and int(idx) >= 10 else "indexed"
    if "__" in k:
        return "nested"
    if k.startswith(("e_", "c_")):
        return "prefixed"
    return "top"


def check(case):
    name = case["cls"]
    facts = dict(cls=name)
    a = _guard("construct", lambda: R.build(case["A"]), facts)
    b = _guard("construct", lambda: R.build(case["B"]), facts)
    labels = set([name])
    entry = R.ENTRIES.get(name)
    changed_something = False

    # ---- get_params is stable and complete enough to rebuild: clone
    for which, obj, spec in (("A", a, case["A"]), ("B", b, case["B"])):
        img = _guard("get_params", lambda: R.params_image(obj), facts)
        img2 = R.params_image(obj)
        require(img == img2, "get_params:not-stable", "two consecutive get_params differ", facts)
        shallow = R.params_image(obj, deep=False)
        for k, v in shallow.items():
            require(k in img and img[k] == v, "get_params:deep-lacks-shallow-key", "key %r" % k, facts)
        c = _guard("clone", lambda: clone(obj), facts)
        require(type(c) is type(obj), "clone:type", "%r" % type(c), facts)
        require(R.params_image(c) == img, "clone:params-differ", _diff(R.params_image(c), img), facts)
        # a clone is independent of its source: no estimator-valued parameter (or member of a list of models) is the same object,
        # so reconfiguring the clone through nested keys (what a grid search does with clone(base).set_params(**candidate)) leaves the source alone
        po, pc = obj.get_params(deep=False), c.get_params(deep=False)
        for k, v in po.items():
            members = list(zip(v, pc[k])) if isinstance(v, (list, tuple)) and isinstance(pc.get(k), (list, tuple)) and len(v) == len(pc[k]) else [(v, pc.get(k))]
            for vo, vc in members:
                if hasattr(vo, "get_params") and not isinstance(vo, type):
                    require(vo is not vc, "clone:shares-parameter-object", "parameter %r of the clone is the very object the source holds" % k, dict(facts, key=k))
        nested = sorted(k for k in c.get_params(deep=True) if "__" in k and isinstance(c.get_params(deep=True)[k], (bool, int, float)) and not isinstance(c.get_params(deep=True)[k], str))
        if nested:
            k = nested[case["seed"] % len(nested)]
            v = c.get_params(deep=True)[k]
            before_src = R.params_image(obj)
            try:
                c.set_params(**{k: (not v) if isinstance(v, bool) else (v + 1 if isinstance(v, int) else v * 2.0 + 0.5)})
            except Exception:  # noqa: BLE001 - the nested object validates in set_params: nothing was reconfigured
                pass
            require(R.params_image(obj) == before_src, "clone:set_params-on-clone-changes-source",
                    "set_params(%s=...) on a clone changed the parameters reported by the object it was cloned from: %s" % (k, _diff(R.params_image(obj), before_src)), dict(facts, key=k))
            c = clone(obj)
            labels.add("clone-reconfigured-through-nested-key")
        fresh = R.build(spec)
        require(set(vars(c)) == set(vars(fresh)), "clone:not-unfitted", "attributes %r vs a fresh instance %r" % (sorted(set(vars(c)) ^ set(vars(fresh))), ""), facts)

    # ---- two separately constructed instances share no mutable parameter object
    pa, pb = a.get_params(deep=False), b.get_params(deep=False)
    for k in pa:
        if k in pb and hasattr(pa[k], "get_params") and not isinstance(pa[k], type):
            require(pa[k] is not pb[k], "construct:shared-parameter-object", "parameter %r of two separately built instances is the same object" % k, dict(facts, key=k))

    # ---- clone of a fitted instance is unfitted and equal
    data = case.get("data")
    if entry is not None and data is not None:
        X, y, w = R.materialize(data)
        fitted = R.build(case["A"])
        np.random.seed(case["seed"])
        entry.fit(fitted, X, y, w)
        c = _guard("clone-fitted", lambda: clone(fitted), facts)
        fresh = R.build(case["A"])
        require(set(vars(c)) == set(vars(fresh)), "clone:fitted-state-leaks", "clone of a fitted instance carries %r" % sorted(set(vars(c)) - set(vars(fresh))), facts)
        require(R.params_image(c) == R.params_image(fresh), "clone:params-differ-after-fit", _diff(R.params_image(c), R.params_image(fresh)), facts)

    # ---- history (in half of the cases both instances have already been trained once: what a fit leaves behind must not outlive a
    # reconfiguration followed by another fit - checked by the instance-versus-clone comparison below)
    if entry is not None and data is not None and case["seed"] % 2 == 0:
        for x in (a, b):
            try:
                np.random.seed(case["seed"] + 5)
                entry.fit(x, *R.materialize(data))
            except Exception:  # noqa: BLE001 - a configuration the data does not suit
                pass
        labels.add("trained-before-the-updates")
    for op in case["ops"]:
        kind = op[0]
        x, other = (a, b) if op[1] == 0 else (b, a)
        if kind == "clone":
            if name in INTERDEPENDENT and not hasattr(x.estimator, x.method):
                # a single-key update left a (estimator, method) pair the constructor documents it refuses: clone must refuse, not repair
                try:
                    clone(x)
                except AssertionError:
                    labels.add("invalid-combination-refused-by-constructor")
                    continue
                raise Violation("clone:accepts-unavailable-method", "clone built a %s whose estimator %s has no %r" % (name, type(x.estimator).__name__, x.method), facts)
            c = _guard("clone", lambda: clone(x), facts)
            require(R.params_image(c) == R.params_image(x), "clone:params-differ", _diff(R.params_image(c), R.params_image(x)), facts)
        elif kind == "set":
            px, po = x.get_params(deep=True), other.get_params(deep=True)
            common = sorted(k for k in px if k in po)
            if not common:
                continue
            key = common[op[2] % len(common)]
            value = _copy_value(po[key])
            before = R.params_image(x)
            other_before = R.params_image(other)
            want = R.norm_param(value)
            f2 = dict(facts, key_kind=_key_kind(key), key=key)
            r = _guard("set_params", lambda: x.set_params(**{key: value}), f2)
            require(r is x, "set_params:does-not-return-self", "set_params(%s=...) returned %r" % (key, type(r).__name__), f2)
            after = R.params_image(x)
            require(R.params_image(other) == other_before, "set_params:changes-another-instance", "set_params(%s=...) on one instance changed another one" % key, f2)
            require(key in after, "set_params:key-vanished", "%r no longer advertised" % key, f2)
            require(after[key] == want, "set_params:key-not-set", "%s: get_params reports %r after setting %r" % (key, _short(after[key]), _short(want)), f2)
            for k in before:
                if not _related(k, key):
                    require(k in after and after[k] == before[k], "set_params:changes-other-key",
                            "set_params(%s=...) changed %r: %r -> %r" % (key, k, _short(before[k]), _short(after.get(k, "<missing>"))), f2)
            if before.get(key) != want:
                changed_something = True
                labels.add("changed:" + _key_kind(key))
            labels.add("key:" + _key_kind(key))
        elif kind == "perturb":
            # any shallow scalar parameter (int / float / bool), also those the configuration strategies never vary:
            # set_params does not validate values (scikit-learn validates in fit), so a perturbed value is a legal argument
            px = x.get_params(deep=False)
            scal = sorted(k for k, v in px.items() if isinstance(v, (bool, int, float)) and not isinstance(v, str))
            if not scal:
                continue
            key = scal[op[2] % len(scal)]
            v = px[key]
            newv = (not v) if isinstance(v, bool) else (v + 1 if isinstance(v, int) else v * 2.0 + 0.5)
            before = R.params_image(x)
            f2 = dict(facts, key_kind="perturbed-scalar", key=key)
            r = _guard("set_params", lambda: x.set_params(**{key: newv}), f2)
            require(r is x, "set_params:does-not-return-self", "set_params(%s=...) returned %r" % (key, type(r).__name__), f2)
            after = R.params_image(x)
            require(after.get(key) == R.norm_param(newv), "set_params:key-not-set", "%s: get_params reports %r after setting %r" % (key, after.get(key), newv), f2)
            for k in before:
                if not _related(k, key):
                    require(k in after and after[k] == before[k], "set_params:changes-other-key",
                            "set_params(%s=...) changed %r: %r -> %r" % (key, k, _short(before[k]), _short(after.get(k, "<missing>"))), f2)
            try:
                c2 = clone(x)
            except (AssertionError, ValueError, TypeError):
                c2 = None        # the constructor validates interdependent values (delay1 < delay2, ...): a refusal, not a defect
                labels.add("perturbed-value-refused-by-constructor")
            if c2 is not None:
                require(R.params_image(c2) == after, "clone:params-differ", _diff(R.params_image(c2), after), f2)
            # restore, so that later behavioural comparisons use valid configurations
            x.set_params(**{key: v})
            changed_something = True
            labels.add("perturbed-scalar")
        elif kind == "set_all":
            params = {k: _copy_value(v) for k, v in other.get_params(deep=True).items()}
            want = {k: R.norm_param(v) for k, v in params.items()}
            before = R.params_image(x)
            r = _guard("set_all", lambda: x.set_params(**params), dict(facts, key_kind="all"))
            require(r is x, "set_params:does-not-return-self", "set_params(**other.get_params()) returned %r" % type(r).__name__, dict(facts, key_kind="all"))
            after = R.params_image(x)
            if name in HOLDERS:
                # free-form kwargs holders: the receiver may keep keys of its own, but it reports every key it was given
                after = {k: v for k, v in after.items() if k in want}
            require(after == want, "set_all:params-differ", _diff(after, want), facts)
            if before != want:
                changed_something = True
                labels.add("changed:set_all")

    # ---- after the history, each instance (configured through whatever single-key and all-key updates it received) behaves like its own
    # clone (configured through the constructor with the values the instance reports): anything an update left half-done shows here
    if entry is not None and data is not None and changed_something:
        for which, x in (("A", a), ("B", b)):
            try:
                cx = clone(x)
            except Exception:  # noqa: BLE001 - judged by the clone checks above
                continue
            Xh, yh, wh = R.materialize(data)
            np.random.seed(case["seed"])
            try:
                entry.fit(cx, Xh, yh, wh)
            except Exception:  # noqa: BLE001 - a configuration the data does not suit (too many clusters, ...): nothing to compare
                continue
            np.random.seed(case["seed"])
            _guard("fit-after-history", lambda: entry.fit(x, *R.materialize(data)), facts)
            Zh = entry.probe(data, Xh, yh)
            np.random.seed(case["seed"] + 1)
            try:
                fc = R.fingerprint(entry, cx, Zh)
            except Exception:  # noqa: BLE001 - this configuration refuses the probe rows (strict unseen categories, ...): nothing to compare
                continue
            np.random.seed(case["seed"] + 1)
            fx = _guard("output-after-history", lambda: R.fingerprint(entry, x, Zh), facts)
            d = R.same_fingerprint(fx, fc, exact=entry.exact)
            require(d is None, "behaviour:instance-differs-from-its-clone-after-history",
                    "instance %s, after the updates of the history and a fit, does not behave like clone(instance) fitted on the same data: %s" % (which, d), facts)
        labels.add("behaviour-after-history-checked")

    # ---- the result of set_params does not depend on the order of the keyword arguments (GridSearchCV / ParameterGrid sort them)
    for order_name, keyfn, rev in (("sorted", None, False), ("reverse-sorted", None, True)):
        src = _guard("construct", lambda: R.build(case["A"]), facts)
        dst = _guard("construct", lambda: R.build(case["B"]), facts)
        params = {k: _copy_value(v) for k, v in src.get_params(deep=True).items()}
        ordered = dict(sorted(params.items(), key=lambda kv: kv[0], reverse=rev))
        want = {k: R.norm_param(v) for k, v in params.items()}
        _guard("set_all", lambda: dst.set_params(**ordered), dict(facts, key_kind="all", order=order_name))
        after = R.params_image(dst)
        if name in HOLDERS:
            after = {k: v for k, v in after.items() if k in want}
        require(after == want, "set_all:params-differ:" + order_name + "-keys", _diff(after, want), dict(facts, order=order_name))

    # ---- behaves identically: B configured from A's params == A
    if entry is not None and data is not None:
        X, y, w = R.materialize(data)
        a2 = R.build(case["A"])
        b2 = R.build(case["B"])
        _guard("set_all", lambda: b2.set_params(**{k: _copy_value(v) for k, v in a2.get_params(deep=True).items()}), facts)
        fa, fb = _guard("clone", lambda: clone(a2), facts), _guard("clone", lambda: clone(b2), facts)
        np.random.seed(case["seed"])
        entry.fit(fa, X, y, w)
        np.random.seed(case["seed"])
        entry.fit(fb, *R.materialize(data))
        Z = entry.probe(data, X, y)
        np.random.seed(case["seed"] + 1)
        pa = R.fingerprint(entry, fa, Z)
        np.random.seed(case["seed"] + 1)
        pb = R.fingerprint(entry, fb, Z)
        d = R.same_fingerprint(pa, pb, exact=entry.exact)
        require(d is None, "behaviour:differs-after-set_params", "B.set_params(**A.get_params()) does not behave like A: %s" % d, facts)
        # the reconfigured instance ITSELF (not a clone, which goes through the constructor) behaves like A
        np.random.seed(case["seed"])
        _guard("fit-after-set_params", lambda: entry.fit(b2, *R.materialize(data)), facts)
        np.random.seed(case["seed"] + 1)
        pc = _guard("output-after-set_params", lambda: R.fingerprint(entry, b2, Z), facts)
        d = R.same_fingerprint(pa, pc, exact=entry.exact)
        require(d is None, "behaviour:instance-differs-after-set_params", "the instance reconfigured by set_params(**A.get_params()) and then fitted does not behave like A: %s" % d, facts)
        labels.add("behaviour-checked")
    if case["A"] != case["B"]:
        labels.add("A!=B")
    return Outcome(sorted(labels), changed_something or case["A"] != case["B"])


def _short(v):
    s = repr(v)
    return s if len(s) < 160 else s[:160] + "..."


def _diff(x, y):
    ks = sorted(set(x) | set(y))
    out = []
    for k in ks:
        if x.get(k, "<missing>") != y.get(k, "<missing>"):
            out.append("%s: %s vs %s" % (k, _short(x.get(k, "<missing>")), _short(y.get(k, "<missing>"))))
    return "; ".join(out[:4])


@st.composite
def _cases(draw, tier="quick", only=None):
    names = R.all_class_names()
    name = only or draw(st.sampled_from(names))
    flavour = draw(st.integers(0, 11))
    A = R.spec_for(name, draw, flavour)
    B = R.spec_for(name, draw, flavour)
    nops = draw(st.integers(1, 6 if tier == "quick" else 12))
    ops = []
    for _ in range(nops):
        k = draw(st.sampled_from(["set", "set", "set", "set_all", "clone", "perturb"]))
        if k in ("set", "perturb"):
            ops.append([k, draw(st.integers(0, 1)), draw(st.integers(0, 200))])
        else:
            ops.append([k, draw(st.integers(0, 1))])
    case = dict(cls=name, A=A, B=B, ops=ops, seed=draw(st.integers(0, 2**31 - 3)))
    if name in R.ENTRIES and draw(st.integers(0, 2)) > 0:
        case["data"] = R.ENTRIES[name].data(draw)
    return case


def _clause(name):
    cheap = name not in R.ENTRIES
    return Clause("protocol:" + name, check, strategy=lambda tier, n=name: _cases(tier, only=n), quick=200 if cheap else 120,
                  thorough=4000 if cheap else 1500, quick_shards=1, thorough_shards=2,
                  doc="clone / set_params(all) / set_params(one key) histories on %s%s" % (name, "" if cheap else " + behaviour after set_params"))


CLAUSES = [_clause(n) for n in R.all_class_names()]
