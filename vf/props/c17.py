"""C17 - IntervalRegressor bootstraps over the whole training set, aggregates exactly."""
from vf import loader
from vf.core import Clause, Outcome, Violation, require, np_scalars, with_np, with_sk
from vf.estimators import RecordingRegressor

import math
import numpy as np
from hypothesis import strategies as st
from sklearn.linear_model import LinearRegression
from sklearn.tree import DecisionTreeRegressor

PROPERTY = "C17"
RULE = ("Hypothesis draws n in 1..12 (tiny on purpose), alpha in 0.3..2.0, n_estimators 1..60, optional weights, n_jobs in "
        "{None,1,2}, a global NumPy seed and a query batch. Base = recording regressor (with or without an integer random_state of its own): the row id is X[:,0], y and the weight are "
        "injective functions of the id, so a mis-aligned (x,y,w) triple or a never-drawn row is visible. Eligibility sub-clause: all "
        "ids must have been drawn whenever a correct uniform sampler would miss one with probability < 1e-12 "
        "(n*((n-1)/n)^draws); otherwise that sub-clause is skipped and the case is trivial for it. Aggregation clause also runs "
        "with LinearRegression / DecisionTreeRegressor bases. Non-trivial: n>=2 and eligibility applied, or weights present. "
        "The query batch comes as float64, float32, int64 or int32. One case in three passes its scalar hyper-parameters as NumPy scalars (numpy.bool_, numpy.int64, numpy.float64). Distinct = distinct case JSON.")
ASSUMPTIONS = ["round(alpha*n) is floor(alpha*n+1/2); at an exact .5 the round-half-even value is accepted as well",
               "statistical statement 'every row eligible' is checked through a deterministic consequence with miss probability < 1e-12"]
TOLERANCES = {"predict==mean": "1e-12 relative", "min<=predict<=max": "1e-12 relative"}

_mod = loader.module("mlmodel.interval_regressor")


def _data(case):
    n, d = case["n"], case["d"]
    ids = np.arange(n, dtype=np.float64)
    X = np.zeros((n, d))
    X[:, 0] = ids
    for j in range(1, d):
        X[:, j] = (ids * (j + 2)) % 5
    y = 3.0 * ids + 0.5
    w = (100.0 + ids) if case["weights"] else None
    if w is not None:
        for i in case.get("zero_w", []):
            w[i % n] = 0.0           # a row of weight zero is still a training row: it counts in n and can be drawn
    return X, y, w


def check_bootstrap(case):
    n, alpha, ne = case["n"], case["alpha"], case["n_estimators"]
    X, y, w = _data(case)
    facts = dict(n=n, alpha=alpha, n_estimators=ne, weights=case["weights"], n_jobs=case["n_jobs"])
    # the base estimator may itself be seeded (DecisionTreeRegressor(random_state=0) is the usual thing to pass): the resamples are the
    # meta-estimator's business and stay independent draws
    base = RecordingRegressor(yield_fit=case.get("yield_fit", 0), random_state=case.get("base_random_state"), keep_reference=bool(case.get("keep_reference")), reseed_global=bool(case.get("reseed_global")))
    facts["reseed_global"] = bool(case.get("reseed_global"))
    facts["keep_reference"] = bool(case.get("keep_reference"))
    facts["base_random_state"] = case.get("base_random_state")
    model = _mod.IntervalRegressor(estimator=base, verbose=bool(case.get("verbose")), **np_scalars(dict(n_estimators=ne, alpha=alpha, n_jobs=case["n_jobs"]), case.get("np_params", False)))
    facts["verbose"] = bool(case.get("verbose"))
    # the training table may be a DataFrame and the targets / weights pandas Series whose index is not 0..n-1 in order (a frame that
    # was sorted and not re-indexed): a drawn row is a position, its features, target and weight stay together
    cont = case.get("container", "array")
    facts["container"] = cont
    Xin, yin, win = X, y, w
    if cont != "array":
        import pandas
        idx = None if cont == "frame" else np.arange(n)[::-1].copy()
        if cont != "series-permuted-index":
            Xin = pandas.DataFrame(X, columns=["c%d" % j for j in range(X.shape[1])], index=idx)
        yin = pandas.Series(y, index=idx)
        win = None if w is None else pandas.Series(w, index=idx)
    np.random.seed(case["seed"])
    import contextlib
    import io
    with contextlib.redirect_stdout(io.StringIO()), contextlib.redirect_stderr(io.StringIO()):       # verbose=True only prints
        r = model.fit(Xin, yin, win) if w is not None else model.fit(Xin, yin)
    require(r is model, "fit:not-self", "", facts)
    require(not hasattr(base, "seen_X_"), "base-estimator-fitted", "the estimator passed in was fitted in place", facts)
    ests = list(model.estimators_)
    require(len(ests) == ne and model.n_estimators_ == ne, "n_estimators", "%d models for n_estimators=%d" % (len(ests), ne), facts)
    require(len(set(id(e) for e in ests)) == ne, "estimators:shared", "the same object appears twice", facts)
    size_a = int(math.floor(alpha * n + 0.5))
    sizes_ok = {size_a, int(round(alpha * n))}
    drawn = set()
    draws = 0
    for i, e in enumerate(ests):
        require(hasattr(e, "seen_X_"), "estimator:not-fitted", "model %d" % i, facts)
        m = e.seen_X_.shape[0]
        require(m in sizes_ok, "resample:size", "model %d saw %d rows, round(alpha*n)=%d" % (i, m, size_a), facts)
        require(len(e.seen_y_) == m and (w is None) == (e.seen_w_ is None) and (w is None or len(e.seen_w_) == m),
                "resample:lengths", "model %d: X %d rows, y %d, w %r" % (i, m, len(e.seen_y_), None if e.seen_w_ is None else len(e.seen_w_)), facts)
        ids = e.seen_X_[:, 0]
        require(bool(np.all((ids >= 0) & (ids < n) & (ids == np.round(ids)))), "resample:not-a-training-row", "", facts)
        ii = ids.astype(int)
        require(np.array_equal(e.seen_X_, X[ii]), "resample:x-misaligned", "model %d" % i, facts)
        require(np.array_equal(e.seen_y_, y[ii]), "resample:y-misaligned", "model %d: ids %r targets %r" % (i, ii.tolist(), e.seen_y_.tolist()), facts)
        if w is not None:
            require(np.array_equal(e.seen_w_, w[ii]), "resample:w-misaligned", "model %d" % i, facts)
        drawn.update(ii.tolist())
        draws += m
    # drawn with replacement: a resample of n rows out of n is the training set in its own order with probability n^-n
    if n >= 12:
        for i, e in enumerate(ests):
            if len(e.seen_X_) == n:
                require(e.seen_X_[:, 0].tolist() != list(range(n)), "resample:is-the-training-set-in-order",
                        "model %d was trained on rows 0..%d in order: nothing was drawn (chance of that: %d^-%d)" % (i, n - 1, n, n), facts)
    # independent draws: two resamples of m rows out of n coincide with probability n^-m
    if ne >= 2 and n >= 2 and len(ests[0].seen_X_) * math.log10(n) >= 12:
        first = ests[0].seen_X_[:, 0].tolist()
        require(any(e.seen_X_[:, 0].tolist() != first for e in ests[1:]), "resample:all-models-same-rows",
                "the %d models were all trained on the same resample %r" % (ne, [int(v) for v in first][:12]), facts)
    # ... and no two of them coincide (pairs * n^-m < 1e-12)
    if ne >= 2 and n >= 2 and len(ests[0].seen_X_) * math.log10(n) >= 12 + math.log10(ne * (ne - 1) / 2.0):
        seen_resamples = {}
        for i, e in enumerate(ests):
            key = tuple(e.seen_X_[:, 0].tolist())
            require(key not in seen_resamples, "resample:two-models-same-rows",
                    "models %d and %d were trained on the very same resample %r (chance of that: n^-m)" % (seen_resamples.get(key, -1), i, [int(v) for v in key][:12]), facts)
            seen_resamples[key] = i
    elig = False
    if n >= 1 and draws > 0:
        miss = n * ((n - 1) / n) ** draws if n > 1 else 0.0
        if miss < 1e-12:
            elig = True
            missing = sorted(set(range(n)) - drawn)
            facts["missing_last"] = missing == [n - 1]
            require(not missing, "eligibility:row-never-drawn",
                    "rows %r never drawn in %d draws over n=%d (miss probability of a uniform sampler %.1e)" % (missing, draws, n, miss), facts)
    if n >= 64 and draws > 0 and 16 * (15.0 / 16.0) ** draws < 1e-12:
        # large training sets: every sixteenth of the table is drawn from (a uniform sampler misses one with probability < 1e-12)
        elig = True
        blocks = np.bincount((np.array(sorted(drawn)) * 16) // n, minlength=16)
        require(bool(np.all(blocks > 0)), "eligibility:block-never-drawn",
                "no row of block(s) %r (sixteenths of the %d training rows) was drawn in %d draws; largest position drawn %d" % (
                    np.nonzero(blocks == 0)[0].tolist(), n, draws, max(drawn)), facts)
    labels = ["n=1" if n == 1 else ("n<=4" if n <= 4 else ("n>4" if n < 64 else "n>=64")), "eligibility-applied" if elig else "eligibility-skipped",
              "weights" if w is not None else "no-weights", "n_jobs=%s" % case["n_jobs"], "alpha<1" if alpha < 1 else "alpha>=1", "container:" + cont,
              "zero-weights" if (w is not None and (w == 0).any()) else "no-zero-weight", "base-reseeds-global-rng" if case.get("reseed_global") else "base-leaves-rng-alone"]
    return Outcome(labels, (n >= 2 and elig) or w is not None)


def check_aggregate(case):
    n, alpha, ne = case["n"], case["alpha"], case["n_estimators"]
    X, y, w = _data(case)
    y = y + np.array(case["noise"], dtype=np.float64)[:n]
    facts = dict(n=n, alpha=alpha, n_estimators=ne, base=case["base"], n_jobs=case["n_jobs"])
    base = {"recording": RecordingRegressor(), "linear": LinearRegression(),
            "tree": DecisionTreeRegressor(max_depth=2, random_state=0)}[case["base"]]
    model = _mod.IntervalRegressor(estimator=base, **np_scalars(dict(n_estimators=ne, alpha=alpha, n_jobs=case["n_jobs"]), case.get("np_params", False)))
    np.random.seed(case["seed"])
    model.fit(X, y, w) if w is not None else model.fit(X, y)
    Q = np.array(case["Q"], dtype=np.float64).reshape(-1, case["d"])
    if case.get("qrepeat"):
        # a large query batch (hundreds to a few thousand rows, sizes that do not divide evenly into 2 or 3 blocks): the drawn rows
        # repeated, each repetition shifted so that all rows differ
        reps = int(case["qrepeat"])
        Q = np.vstack([Q + 0.25 * r for r in range(reps)])[:case.get("qrows") or None]
    qd = case.get("qdtype", "float64")
    if qd != "float64":
        # queries that are not float64 arrays (integer features, a float32 pipeline): the aggregate is still made of what each model answers
        Q = (np.round(Q) if qd.startswith("int") else Q).astype(qd)
    facts["qdtype"] = qd
    Q0 = Q.copy()
    pa_returned = model.predict_all(Q)
    pa = np.array(pa_returned, copy=True)          # what was returned, kept aside: the array handed to the caller must stay what it was
    require(pa.shape == (len(Q), ne), "predict_all:shape", "%r" % (pa.shape,), facts)
    for i, e in enumerate(model.estimators_):
        own = np.asarray(e.predict(Q))
        require(np.array_equal(pa[:, i], own), "predict_all:column", "column %d is not model %d's prediction: %r vs %r" % (i, i, pa[:, i].tolist()[:3], own.tolist()[:3]), facts)
    p = model.predict(Q)
    scale = 1.0 + np.abs(pa).max() if pa.size else 1.0
    require(p.shape == (len(Q),), "predict:shape", "%r" % (p.shape,), facts)
    require(bool(np.all(np.abs(p - pa.mean(axis=1)) <= 1e-12 * scale)), "predict:not-mean", "%r vs %r" % (p.tolist()[:3], pa.mean(axis=1).tolist()[:3]), facts)
    ps = model.predict_sorted(Q)
    require(ps.shape == pa.shape, "predict_sorted:shape", "%r" % (ps.shape,), facts)
    require(bool(np.all(np.diff(ps, axis=1) >= 0)), "predict_sorted:not-sorted", "", facts)
    require(np.array_equal(np.sort(pa, axis=1), ps), "predict_sorted:not-a-permutation", "", facts)
    require(bool(np.all(ps[:, 0] - 1e-12 * scale <= p)) and bool(np.all(p <= ps[:, -1] + 1e-12 * scale)), "predict:outside-min-max", "", facts)
    require(np.array_equal(Q, Q0), "input-modified", "", facts)
    # predict_all again unchanged (predict_sorted must not sort the models in place)
    require(np.array_equal(model.predict_all(Q), pa), "predict_all:changed-after-sorted", "", facts)
    require(np.array_equal(pa_returned, pa), "predict_all:returned-array-changed-later", "the array predict_all returned was modified by later calls (predict_sorted sorts in place?)", facts)
    # the caller may do what it wants with what it was given
    pa_returned[...] = -12345.0
    require(np.array_equal(model.predict_all(Q), pa), "predict_all:follows-the-callers-edits", "", facts)
    # the hyper-parameter is changed WITHOUT refitting (what a grid search does between fits): the fitted models are the same,
    # so predict is still their mean
    model.set_params(n_estimators=case.get("other_n_estimators", ne + 3))
    pa2 = model.predict_all(Q)
    require(np.array_equal(pa2, pa), "predict_all:changed-by-set_params", "", facts)
    p2 = model.predict(Q)
    require(bool(np.all(np.abs(p2 - pa.mean(axis=1)) <= 1e-12 * scale)), "predict:not-mean:after-set_params",
            "after set_params(n_estimators=%d) without refit, predict is no longer the mean of the %d fitted models' predictions" % (
                case.get("other_n_estimators", ne + 3), ne), facts)
    return Outcome([case["base"], "n_jobs=%s" % case["n_jobs"], "weights" if w is not None else "no-weights",
                    "ne=1" if ne == 1 else "ne>1", "query:" + qd, "query-rows>=512" if len(Q) >= 512 else "query-rows<512"], ne >= 2 and len(Q) >= 2)


@st.composite
def _boot_cases(draw, tier="quick"):
    n = draw(st.one_of(st.integers(1, 4), st.integers(1, 12), st.integers(1, 12), st.integers(20, 40)))
    alpha = draw(st.sampled_from([0.3, 0.5, 0.75, 1.0, 1.0, 1.0, 1.25, 1.5, 2.0]))
    ne = draw(st.one_of(st.integers(1, 60), st.integers(40, 60), st.sampled_from([1, 1, 2])))       # a single model is still a bootstrap model
    return dict(n=n, d=draw(st.integers(1, 3)), alpha=alpha, n_estimators=ne, weights=draw(st.booleans()),
                n_jobs=draw(st.sampled_from([None, None, 1, 2])), seed=draw(st.integers(0, 2**31 - 1)),
                yield_fit=draw(st.sampled_from([0, 0, 1])), base_random_state=draw(st.sampled_from([None, None, 0, 7, 12345])), zero_w=draw(st.lists(st.integers(0, 11), max_size=3)) if draw(st.integers(0, 2)) == 0 else [],
                container=draw(st.sampled_from(["array", "array", "frame", "frame-permuted-index", "series-permuted-index"])),
                keep_reference=draw(st.booleans()), verbose=draw(st.integers(0, 3)) == 0, reseed_global=draw(st.integers(0, 3)) == 0)


@st.composite
def _large_boot_cases(draw, tier="quick"):
    # sizes around the limits of 8-, 15-, 16-bit positions and well beyond
    n = draw(st.sampled_from([127, 128, 129, 255, 256, 257, 1000, 4096, 32767, 32768, 32769, 40000, 50000, 65535, 65536, 65537, 70000]))
    return dict(n=n, d=1, alpha=draw(st.sampled_from([1.0, 1.0, 0.5])), n_estimators=draw(st.integers(2, 3)) if n > 5000 else draw(st.integers(2, 8)), weights=draw(st.booleans()),
                n_jobs=None, seed=draw(st.integers(0, 2**31 - 1)), yield_fit=0, base_random_state=None, zero_w=[], container="array", keep_reference=False, verbose=False)


@st.composite
def _agg_cases(draw, tier="quick"):
    base = draw(st.sampled_from(["recording", "linear", "tree"]))
    n = draw(st.integers(3 if base != "recording" else 1, 12))
    d = draw(st.integers(1, 3))
    alpha = draw(st.sampled_from([0.75, 1.0, 1.0, 1.5, 2.0]))
    q = draw(st.integers(1, 6))
    Q = draw(st.lists(st.lists(st.integers(-40, 40).map(lambda k: k / 4.0), min_size=d, max_size=d), min_size=q, max_size=q))
    noise = draw(st.lists(st.integers(-8, 8).map(lambda k: k / 8.0), min_size=12, max_size=12))
    qrows = draw(st.sampled_from([0, 0, 0, 0, 513, 515, 1024, 1025, 1537, 2051]))
    return dict(n=n, d=d, alpha=alpha, n_estimators=draw(st.integers(1, 12)), other_n_estimators=draw(st.integers(1, 24)), weights=draw(st.booleans()), base=base,
                n_jobs=draw(st.sampled_from([None, 1, 2, 3])), seed=draw(st.integers(0, 2**31 - 1)), Q=Q, noise=noise, qrows=qrows, qrepeat=(qrows // q + 1) if qrows else 0,
                qdtype=draw(st.sampled_from(["float64", "float64", "float32", "int64", "int32"])))


CLAUSES = [
    Clause("bootstrap", check_bootstrap, strategy=lambda tier: with_sk(with_np(_boot_cases(tier))), quick=700, thorough=12000, quick_shards=12,
           doc="resample size, alignment of (x,y,w), eligibility of every row, base estimator untouched"),
    Clause("bootstrap-large", check_bootstrap, strategy=lambda tier: _large_boot_cases(tier), quick=96, thorough=1200, quick_shards=8,
           doc="training sets of 127 .. 70000 rows: sizes, alignment, every sixteenth of the table eligible"),
    Clause("aggregate", check_aggregate, strategy=lambda tier: with_sk(with_np(_agg_cases(tier))), quick=500, thorough=8000, quick_shards=4,
           doc="predict == mean(predict_all); predict_sorted sorted permutation; min <= predict <= max"),
]
