"""C20 - time-series framing never looks ahead (build_ts_X_y, ts_mape)."""
from vf import loader
from vf.core import Clause, Outcome, Violation, require, with_sk

import numpy as np
import pandas
from hypothesis import strategies as st

PROPERTY = "C20"
RULE = ("frame-*: EXHAUSTIVE enumeration of (n 1..N, past 1..6, delay2 2..6, delay1=1, use_all_past=False) "
        "with nrow=n-delay2-past+2>=1, x {no X, 1 or 2 exogenous columns} x {weights, none} x same_rows, on an "
        "injective series (every value identifies its time index) so each output cell is decoded back to a time "
        "index (plus series of 255..1025 rows, 4097 thorough); frame-values: the same oracle on Hypothesis-drawn injective real series (float64/float32), given as "
        "arrays or as pandas Series with the default or a permuted index. "
        "mape-*: Hypothesis-drawn series/forecasts/weights as arrays, lists, column vectors or pandas Series. Non-trivial: past>=2 and delay2>=3, or X/weights "
        "present (frame); series with >=3 points and a non-constant expected part (mape). Distinct = distinct "
        "configuration / distinct case JSON.")
ASSUMPTIONS = [
    "delay1 = 1 and use_all_past = False (the configuration the statement quantifies over)",
    "series are float arrays (the code allocates outputs with y.dtype; NaN padding needs a float dtype)",
    "ts_mape: NaN forecasts only in first position (what the library's own regressors produce)",
]
TOLERANCES = {"frame": "exact (values are copied)", "mape-naive": "1e-12 relative"}

_utils = loader.module("timeseries.utils")
_metrics = loader.module("timeseries.metrics")
_base = loader.module("timeseries.base")
_dummies = loader.module("timeseries.dummies")
_prep = loader.module("timeseries.preprocessing")


def _model(past, delay2):
    return _base.BaseTimeSeries(past=past, delay1=1, delay2=delay2, use_all_past=False)


def check_frame(case):
    past, delay2, same_rows = case["past"], case["delay2"], case["same_rows"]
    dt = np.float32 if case.get("dtype") == "float32" else np.float64
    y = np.array(case["y"], dtype=dt)
    n = y.shape[0]
    xdt = np.int64 if case.get("xdtype") == "int" else dt
    X = None if case["X"] is None else np.array(case["X"], dtype=xdt).reshape(n, -1)
    w = None if case["w"] is None else np.array(case["w"], dtype=dt)
    ncol = 0 if X is None else X.shape[1]
    nrow = n - delay2 - past + 2
    assert nrow >= 0
    if nrow == 0:
        # one observation short of a first complete row: the plain table is empty, the same_rows table is the series' length of NaN rows
        # (nothing of the series may appear in it: every value would be a lag AND a target at once)
        nx, ny, nw = _utils.build_ts_X_y(_model(past, delay2), X, y, w, same_rows=same_rows)
        nx, ny = np.asarray(nx), np.asarray(ny)
        f0 = dict(past=past, delay2=delay2, same_rows=same_rows, ncol=ncol, weights=w is not None, nrow=0)
        if same_rows:
            require(nx.shape == (n, ncol + past) and ny.shape == (n, delay2 - 1), "shape:no-complete-row", "%r %r" % (nx.shape, ny.shape), f0)
            require(bool(np.isnan(nx).all()) and bool(np.isnan(ny).all()), "same_rows:values-without-a-complete-row",
                    "series of %d values, past=%d delay2=%d: X=%r y=%r" % (n, past, delay2, nx.tolist(), ny.tolist()), f0)
        else:
            require(nx.shape[0] == 0 and ny.shape[0] == 0, "plain:rows-without-a-complete-row", "%r %r" % (nx.shape, ny.shape), f0)
        return Outcome(["no-complete-row", "same_rows" if same_rows else "plain"], True, key=dict(past=past, delay2=delay2, same_rows=same_rows, ncol=ncol, w=w is not None))
    yidx = {float(v): i for i, v in enumerate(y)}
    assert len(yidx) == n, "series must be injective"
    y0, X0, w0 = y.copy(), None if X is None else X.copy(), None if w is None else w.copy()
    facts = dict(past=past, delay2=delay2, same_rows=same_rows, ncol=ncol, weights=w is not None)

    # the series (and weights) may come as pandas Series, with the default index or a permuted one (a frame sorted by date and not
    # re-indexed): time is the position in the series, never the label
    cont = case.get("container", "array")
    facts["container"] = cont
    yin, win = y, w
    if cont == "strided":
        # a column of a wider table (y = table[:, 0]): a non-contiguous view whose neighbouring memory cells hold LATER values of the series
        wide = np.empty((n, 2), dtype=y.dtype)
        wide[:, 0] = y
        wide[:, 1] = np.concatenate([y[1:], y[:1]]) + 1000.0
        yin = wide[:, 0]
        if w is not None:
            ww = np.empty((n, 2), dtype=w.dtype)
            ww[:, 0] = w
            ww[:, 1] = -1.0
            win = ww[:, 0]
    elif cont != "array":
        idx = None if cont == "series" else np.argsort(np.argsort(-np.arange(n) * 7 % max(n, 1) + np.arange(n) / (n + 1.0)))
        yin = pandas.Series(y, index=idx)
        win = None if w is None else pandas.Series(w, index=idx)
    model = _model(past, delay2)
    if case.get("prefit"):
        # the framing object was used before: a regressor with a differencing preprocessing, already fitted on another series.  The table is
        # a function of (past, delay1, delay2) and of the series handed in; what the object learnt earlier does not move any slice
        model = _dummies.DummyTimeSeriesRegressor(past=past, delay1=1, delay2=delay2, preprocessing=_prep.TimeSeriesDifference(1))
        warm = np.arange(past + delay2 + 6, dtype=np.float64) * 1.5
        try:
            model.fit(None, warm)
        except Exception:  # noqa: BLE001 - a configuration the regressor itself cannot be fitted with: plain framing object instead
            model = _model(past, delay2)
        facts["prefit"] = hasattr(model, "preprocessing_")
    nx, ny, nw = _utils.build_ts_X_y(model, X, yin, win, same_rows=same_rows)
    nx, ny = np.asarray(nx), np.asarray(ny)
    nw = None if nw is None else np.asarray(nw)

    require(np.array_equal(y, y0) and (X is None or np.array_equal(X, X0)) and (w is None or np.array_equal(w, w0)),
            "input-modified", "build_ts_X_y wrote into its inputs", facts)
    require(nx.ndim == 2 and ny.ndim == 2, "shape:ndim", "%r %r" % (nx.shape, ny.shape), facts)
    require(nx.shape[1] == ncol + past, "shape:X-cols", "%r, expected %d columns" % (nx.shape, ncol + past), facts)
    require(ny.shape[1] == delay2 - 1, "shape:y-cols", "%r, expected %d target columns" % (ny.shape, delay2 - 1), facts)
    require(nx.shape[0] == ny.shape[0], "shape:rows-differ", "%r vs %r" % (nx.shape, ny.shape), facts)
    if same_rows:
        require(nx.shape[0] == n, "same_rows:length", "new_X has %d rows for a series of %d" % (nx.shape[0], n), facts)
        # left padding: leading rows entirely NaN in both tables, then a NaN-free table
        full = ~(np.isnan(nx).any(axis=1) | np.isnan(ny).any(axis=1))
        allnan = np.isnan(nx).all(axis=1) & np.isnan(ny).all(axis=1)
        require(bool(np.all(full | allnan)), "same_rows:partial-row", "a row is partly NaN", facts)
        k = int(allnan.sum())
        require(bool(np.all(allnan[:k])) and bool(np.all(full[k:])), "same_rows:padding-not-left",
                "NaN rows are not a prefix: %r" % allnan.tolist(), facts)
        tx, ty = nx[k:], ny[k:]
        # the same table as same_rows=False
        rx, ry, _ = _utils.build_ts_X_y(_model(past, delay2), X, y, w, same_rows=False)
        require(tx.shape == rx.shape and np.array_equal(tx, rx) and np.array_equal(ty, ry), "same_rows:table-differs",
                "the un-padded part differs from the same_rows=False table", facts)
        if w is not None:
            require(nw is not None and len(nw) == n, "same_rows:weights-length", "", facts)
        tw = None
    else:
        tx, ty, tw = nx, ny, nw
        if w is None:
            require(nw is None, "weights:invented", "weights returned although none given", facts)
        else:
            require(nw is not None and len(nw) == tx.shape[0], "weights:length",
                    "weights length %r for %d rows" % (None if nw is None else len(nw), tx.shape[0]), facts)
    require(tx.shape[0] >= 1, "shape:no-row", "no row although n-delay2-past+2=%d" % nrow, facts)

    prev_newest = None
    complete = tx.shape[0] == nrow
    for r in range(tx.shape[0]):
        try:
            lags = [yidx[float(v)] for v in tx[r, ncol:]]
            targets = [yidx[float(v)] for v in ty[r]]
        except KeyError:
            raise Violation("cell:not-a-series-value", "row %d holds a value that is not in the series" % r, facts)
        require(all(b == a + 1 for a, b in zip(lags, lags[1:])), "lags:not-consecutive",
                "row %d lags at times %r" % (r, lags), facts)
        newest = lags[-1]
        require(max(lags) < min(targets), "look-ahead", "row %d: lags %r, targets %r" % (r, lags, targets), facts)
        require(targets[0] == newest + 1, "target:first-not-delay1",
                "row %d: newest lag at %d, first target at %d" % (r, newest, targets[0]), facts)
        require(all(b == a + 1 for a, b in zip(targets, targets[1:])), "targets:not-consecutive",
                "row %d targets at %r" % (r, targets), facts)
        if X is not None:
            require(np.array_equal(tx[r, :ncol], X[newest]), "exogenous:misaligned",
                    "row %d (newest lag %d) carries X row %r" % (r, newest, tx[r, :ncol].tolist()), facts)
        if tw is not None:
            require(tw[r] == w[newest], "weights:misaligned", "row %d (newest lag %d) weight %r" % (r, newest, float(tw[r])), facts)
        if prev_newest is not None:
            require(newest > prev_newest, "rows:not-in-time-order", "row %d newest lag %d after %d" % (r, newest, prev_newest), facts)
            if newest != prev_newest + 1:
                complete = False
        prev_newest = newest
    nontrivial = (past >= 2 and delay2 >= 3) or ncol > 0 or w is not None
    labels = ["same_rows" if same_rows else "table", "ncol=%d" % ncol, "weights" if w is not None else "no-weights",
              "complete" if complete else "rows-skipped", "past>=2" if past >= 2 else "past=1",
              "delay2>=3" if delay2 >= 3 else "delay2=2"]
    return Outcome(labels, nontrivial)


def _enum_cases(tier):
    nmax = 22 if tier == "quick" else 40
    for n in range(1, nmax + 1):
        for past in range(1, 7):
            for delay2 in range(2, 7):
                if n - delay2 - past + 2 < 0:
                    continue
                for ncol in (0, 1, 2):
                    for hasw in (False, True):
                        for same_rows in (False, True):
                            y = [float(t) for t in range(n)]
                            X = None if ncol == 0 else [[float(t), float(-t - 1)][:ncol] for t in range(n)]
                            w = [1000.0 + t for t in range(n)] if hasw else None
                            yield dict(past=past, delay2=delay2, same_rows=same_rows, y=y, X=X, w=w)
    # long series (lengths around powers of two and beyond): same statement
    for n in ((255, 256, 257, 1025) if tier == "quick" else (255, 256, 257, 511, 512, 513, 1023, 1024, 1025, 4097)):
        for past in (1, 3, 6):
            for delay2 in (2, 4):
                for same_rows in (False, True):
                    for cont in ("array", "series-permuted", "strided"):
                        yield dict(past=past, delay2=delay2, same_rows=same_rows, y=[float(t) for t in range(n)],
                                   X=[[float(t), float(-t - 1)] for t in range(n)], w=[1000.0 + t for t in range(n)], container=cont)


_grid = st.integers(-4000, 4000).map(lambda k: k / 8.0)


@st.composite
def _value_cases(draw, tier="quick"):
    past = draw(st.integers(1, 6))
    delay2 = draw(st.integers(2, 6))
    extra = draw(st.integers(0, 12 if tier == "quick" else 40))
    n = delay2 + past - 1 + extra
    y = draw(st.lists(_grid, min_size=n, max_size=n, unique=True))
    ncol = draw(st.integers(0, 2))
    X = None
    if ncol:
        cols = [draw(st.lists(_grid, min_size=n, max_size=n, unique=True)) for _ in range(ncol)]
        X = [[c[t] for c in cols] for t in range(n)]
    w = draw(st.one_of(st.none(), st.lists(st.integers(1, 4000).map(lambda k: k / 8.0), min_size=n, max_size=n, unique=True)))
    xdtype = "float"
    if X is not None and draw(st.integers(0, 3)) == 0:
        # integer exogenous features next to a float series: the table must still hold the series' values
        cols = [draw(st.lists(st.integers(-4000, 4000), min_size=n, max_size=n, unique=True)) for _ in range(ncol)]
        X = [[c[t] for c in cols] for t in range(n)]
        xdtype = "int"
    return dict(past=past, delay2=delay2, same_rows=draw(st.booleans()), y=y, X=X, w=w, xdtype=xdtype,
                prefit=draw(st.integers(0, 3)) == 0, dtype=draw(st.sampled_from(["float64", "float32"])), container=draw(st.sampled_from(["array", "array", "series", "series-permuted", "strided"])))


# ------------------------------------------------------------------ ts_mape
def _mape_arrays(case):
    y = np.array(case["y"], dtype=np.float64)
    p = np.array([np.nan if v is None else v for v in case["p"]], dtype=np.float64)
    w = None if case["w"] is None else np.array(case["w"], dtype=np.float64)
    R = int(case.get("repeat") or 0)
    if R > 1:
        # a long series (thousands of observations): the drawn one repeated; the naive forecast is rebuilt on the long series so that it
        # stays the previous value across every seam, holes at the repeated positions
        holes = np.isnan(np.tile(p, R))
        y = np.tile(y, R)
        w = None if w is None else np.tile(w, R)
        if case.get("naive"):
            first = p[0]
            p = np.concatenate([[first], y[:-1]])
            holes[::len(case["y"])] = False
            holes[0] = bool(np.isnan(first))
            p[holes] = np.nan
        else:
            p = np.tile(p, R)
    return y, p, w


def _mape_call(case, y, p, w):
    """ts_mape on arrays, lists, column vectors or pandas Series (default or permuted index) holding the same values"""
    cont = case.get("container", "array")
    n = len(y)
    if cont == "list":
        args = (y.tolist(), p.tolist(), None if w is None else w.tolist())
    elif cont == "column":
        args = (y.reshape(-1, 1), p.reshape(-1, 1), w)
    elif cont in ("series", "series-permuted"):
        idx = None if cont == "series" else np.arange(n)[::-1].copy()
        which = case.get("series_args", "both")
        ys = pandas.Series(y, index=idx) if which in ("both", "y") else y
        ps = pandas.Series(p, index=idx) if which in ("both", "p") else p
        args = (ys, ps, None if w is None else pandas.Series(w, index=idx))
    else:
        args = (y, p, w)
    def once():
        if case.get("positional_weights") and args[2] is not None:
            return float(_metrics.ts_mape(args[0], args[1], args[2]))          # the documented signature: (expected_y, predicted_y, sample_weight)
        return float(_metrics.ts_mape(args[0], args[1], sample_weight=args[2]))
    snap = [None if a is None else np.array(a, dtype=np.float64, copy=True) for a in args]
    v1 = once()
    # a metric reads its arguments: they hold afterwards what they held before (NaN forecasts included), and asking again gives the same
    for name, a, b in zip(("expected_y", "predicted_y", "sample_weight"), args, snap):
        if a is not None:
            require(np.array_equal(np.asarray(a, dtype=np.float64), b, equal_nan=True), "mape:input-modified", "ts_mape changed its argument %s" % name, dict(container=cont))
    v2 = once()
    require(v1 == v2 or (v1 != v1 and v2 != v2), "mape:second-call-differs", "ts_mape on the same arguments: %r then %r" % (v1, v2), dict(container=cont))
    return v1


def check_mape_nonneg(case):
    y, p, w = _mape_arrays(case)
    facts = dict(constant=bool(np.all(y[1:] == y[:-1])), weights=w is not None, container=case.get("container", "array"))
    if len(y) >= 2 and not (~np.isnan(p[1:]) & ~np.isnan(p[:-1])).any():
        # no step has a forecast at t and t-1: nothing to average, the statement says nothing
        return Outcome(["no-valid-step"], False)
    v = _mape_call(case, y, p, w)
    require(not np.isnan(v), "mape:nan", "ts_mape returned NaN", facts)
    require(v >= 0, "mape:negative", "ts_mape = %r" % v, facts)
    # reference value from the docstring's formula
    # a step t counts when there is a forecast at t and at t-1 (leading padding, or a hole in the forecasts, removes the steps it touches)
    ww = np.ones_like(y) if w is None else w
    valid = ~np.isnan(p[1:]) & ~np.isnan(p[:-1])
    d1 = float(np.sum((np.abs(y[:-1] - y[1:]) * ww[1:])[valid]))
    d2 = float(np.sum((np.abs(np.nan_to_num(p[1:]) - y[1:]) * ww[1:])[valid]))
    if d1 > 0:
        require(abs(v - d2 / d1) <= 1e-9 * max(1.0, abs(d2 / d1)), "mape:value",
                "ts_mape = %r, formula gives %r" % (v, d2 / d1), facts)
    elif d2 == 0:
        require(v == 0, "mape:value-0/0", "ts_mape = %r for a perfect forecast of a constant series" % v, facts)
    return Outcome(["constant" if facts["constant"] else "varying", "weights" if w is not None else "no-weights",
                    "nan-first" if np.isnan(p[0]) else "no-nan", "container:" + case.get("container", "array"),
                    "hole-in-forecasts" if np.isnan(p[1:]).any() else "no-hole", "n>4096" if len(y) > 4096 else "n<=4096"], len(y) >= 3)


def check_mape_naive(case):
    y, p, w = _mape_arrays(case)
    v = _mape_call(case, y, p, w)
    require(abs(v - 1.0) <= 1e-12, "mape:naive-not-1", "ts_mape(naive forecast) = %r" % v,
            dict(weights=w is not None, nan_first=bool(np.isnan(p[0])), container=case.get("container", "array")))
    return Outcome(["weights" if w is not None else "no-weights", "nan-first" if np.isnan(p[0]) else "first-arbitrary",
                    "container:" + case.get("container", "array"), "hole-in-forecasts" if np.isnan(p[1:]).any() else "no-hole", "n>4096" if len(y) > 4096 else "n<=4096"], len(y) >= 3)


@st.composite
def _mape_cases(draw, naive=False):
    n = draw(st.integers(3, 25))
    kind = draw(st.sampled_from(["any", "any", "constant", "steps"]))
    if naive:
        kind = draw(st.sampled_from(["any", "steps"]))
    if kind == "constant":
        c = draw(_grid)
        y = [c] * n
    elif kind == "steps":
        y = []
        cur = draw(_grid)
        for _ in range(n):
            if draw(st.integers(0, 2)) == 0:
                cur = draw(_grid)
            y.append(cur)
    else:
        y = draw(st.lists(_grid, min_size=n, max_size=n))
    if naive:
        # make sure the part that is compared is not constant (construction, no filtering)
        if y[-1] == y[-2]:
            y[-1] = y[-2] + draw(st.integers(1, 64)) / 8.0
        first = draw(st.one_of(st.none(), _grid))
        p = [first] + y[:-1]
        if n >= 6 and draw(st.integers(0, 2)) == 0:
            # holes in the forecasts (segments forecast separately, each padded at its start); the last two steps stay forecast
            for _ in range(draw(st.integers(1, 2))):
                p[draw(st.integers(1, n - 4))] = None
    else:
        p = draw(st.lists(_grid, min_size=n, max_size=n))
        if draw(st.booleans()):
            p[0] = None
        if draw(st.integers(0, 4)) == 0:
            p = [p[0]] + y[1:]  # perfect forecast
        if n >= 4 and draw(st.integers(0, 2)) == 0:
            for _ in range(draw(st.integers(1, 2))):
                p[draw(st.integers(1, n - 1))] = None
    w = draw(st.one_of(st.none(), st.lists(st.integers(1, 32).map(lambda k: k / 4.0), min_size=n, max_size=n)))
    repeat = 0 if draw(st.integers(0, 9)) else (4096 // n + draw(st.integers(1, 300)))
    return dict(y=y, p=p, w=w, container=draw(st.sampled_from(["array", "array", "list", "column", "series", "series-permuted"])),
                series_args=draw(st.sampled_from(["both", "y", "p"])), naive=bool(naive), repeat=repeat, positional_weights=draw(st.booleans()))


CLAUSES = [
    Clause("frame-exhaustive", check_frame, cases=_enum_cases, quick_shards=8, thorough_shards=16, exhaustive=True,
           doc="all (n, past, delay2, ncol, weights, same_rows) within the bounds; every cell decoded to its time index"),
    Clause("frame-values", check_frame, strategy=lambda tier: with_sk(_value_cases(tier)), quick=1500, thorough=30000,
           doc="injective real series, float32/float64"),
    Clause("mape-nonneg", check_mape_nonneg, strategy=lambda tier: with_sk(_mape_cases(False)), quick=1500, thorough=30000,
           doc="ts_mape returns a non-negative number equal to the documented ratio, also for constant series"),
    Clause("mape-naive", check_mape_naive, strategy=lambda tier: with_sk(_mape_cases(True)), quick=1500, thorough=30000,
           doc="ts_mape == 1 for the previous-value forecast on non-constant series"),
]
