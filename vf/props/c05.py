"""C05 - QuantileLinearRegression fits, and scores with, the pinball loss of its quantile."""
from vf import loader
from vf.core import Clause, Outcome, Violation, require, np_scalars, with_sk, round_trip, build_via

import numpy as np
from hypothesis import strategies as st
from scipy.optimize import linprog
from sklearn.metrics import mean_absolute_error

PROPERTY = "C05"
RULE = ("Hypothesis draws q in (0,1) (0.5 forced in a fraction of cases), a full-rank design (dyadic grid + small continuous jitter), "
        "n 8..60, d 1..3, a linear signal plus continuous noise of three amplitudes, fit_intercept, positive, max_iter in "
        "{10, 50, 300}, optional integer weights 1..4; targets in units of 1, 1e-5, 1e-3 or 1e3 with delta scaled alike (a non-default delta); in a third of the cases the hyper-parameters are NumPy scalars (numpy.bool_, numpy.int64, numpy.float64). Oracles: (optimal) exact LP optimum of the (weighted) pinball loss "
        "(scipy HiGHS; same sign constraints when positive=True) - the fit's loss may exceed it by a calibrated factor per "
        "max_iter - and the loss at q of the model fitted for 1-q is not smaller; (fraction) |#{y<f}/n - q| <= (d+3)/n; (score) "
        "score == 2*mean pinball_q exactly (MAE at q=0.5) and is monotone in the true pinball loss under perturbations of the model; "
        "(weights) integer weights == repeated rows; (flags) positive => coef_>=0, fit_intercept=False => intercept_==0. "
        "Non-trivial: q outside [0.45,0.55], or weights, or a non-default flag. Distinct = distinct case JSON.")
ASSUMPTIONS = ["every noise term is at least 1e-3 in magnitude (10 x the default delta=1e-4): the IRLS weights are capped at 1/delta, so data whose whole noise lies "
               "below delta is outside the regime the algorithm can resolve (calibration: no excess beyond the bounds below for noise amplitude >= 1e-2, "
               "up to 0.4 x the null-model loss for amplitude <= 1e-4)",
               "'up to the IRLS tolerance' is made concrete by calibration on the unchanged tree: worst relative excess over the LP optimum "
               "seen in 1500 cases was 0.15 (max_iter=10), 0.034 (50), 0.0013 (300); the check allows 1.5 / 0.35 / 0.02",
               "the weighted score for q != 0.5 is not defined by the statement ('mean'): checked only unweighted, and weighted at q=0.5 against weighted MAE",
               "with positive=True the implementation also constrains the intercept (it is a coefficient of the augmented design); the LP uses the same feasible set, which only makes the bound weaker"]
EPS = {10: 1.5, 50: 0.35, 300: 0.02}
TOLERANCES = {"optimality (relative excess over LP optimum) by max_iter": EPS, "score": "1e-12 relative", "weights==duplication": "1e-8 relative (1e-4 with positive=True: scipy nnls is iterative)", "optimality absolute slack": "n * delta (1e-4 per row)",
              "fraction": "(d+3)/n"}

_Q = loader.module("mlmodel.quantile_regression").QuantileLinearRegression


def pinball(y, f, q, w=None):
    w = np.ones(len(y)) if w is None else w
    return float(np.sum(w * (q * np.maximum(y - f, 0) + (1 - q) * np.maximum(f - y, 0))))


def lp_optimum(X, y, q, w, fit_intercept, positive):
    n = X.shape[0]
    Xm = np.hstack([X, np.ones((n, 1))]) if fit_intercept else X
    p = Xm.shape[1]
    c = np.concatenate([np.zeros(p), q * w, (1 - q) * w])
    A = np.hstack([Xm, np.eye(n), -np.eye(n)])
    bounds = [(0, None) if positive else (None, None)] * p + [(0, None)] * (2 * n)
    r = linprog(c, A_eq=A, b_eq=y, bounds=bounds, method="highs")
    if r.status != 0:
        raise RuntimeError("reference LP failed: %s" % r.message)
    return float(r.fun)


def _data(case):
    X = np.array(case["X"], dtype=np.float64)
    n, d = X.shape
    y = X @ np.array(case["beta"]) + case["b"] + case["amp"] * np.array(case["noise"][:n])
    for i, v in case.get("outliers", []):
        y[i % n] = v                    # a few sentinel / recording-error targets far away from the rest
    w = None if case["w"] is None else np.array(case["w"][:n], dtype=np.float64)
    # targets in other units: y * s with delta * s is the same problem (the IRLS floor `delta` is an absolute residual size)
    y = y * float(case.get("yscale", 1.0))
    if case.get("ydtype") == "int64":
        # integer-typed targets (counts, prices in cents): the same problem on the rounded values
        y = np.round(y).astype(np.int64)
    # features in other units, without an intercept (a power of two keeps every product exact, so the fit is the same fit with
    # coefficients in the other unit; WITH the constant column the design [X * 2**30, 1] is ill conditioned under the IRLS weights and
    # double precision gives out - BUILDLOG - which is arithmetic, not the statement)
    if not case["fit_intercept"]:
        X = X * float(case.get("xscale", 1.0))
    return X, y, w


def _delta(case):
    return 1e-4 * float(case.get("yscale", 1.0))


def _facts(case):
    return dict(q=case["q"], max_iter=case["max_iter"], fit_intercept=case["fit_intercept"], positive=case["positive"],
                weighted=case["w"] is not None)


def check_fit(case):
    X, y, w = _data(case)
    n, d = X.shape
    q = case["q"]
    facts = _facts(case)
    if np.linalg.matrix_rank(np.hstack([X, np.ones((n, 1))])) < d + 1:
        return Outcome(["rank-deficient-skipped"], False)
    X0, y0, w0 = X.copy(), y.copy(), None if w is None else w.copy()
    m = build_via(_Q, dict(delta=_delta(case), **np_scalars(dict(quantile=q, max_iter=case["max_iter"], fit_intercept=case["fit_intercept"], positive=case["positive"]), case.get("np_params", False))),
                  case.get("via_set_params"))
    facts["np_params"] = bool(case.get("np_params", False))
    facts["yscale"] = case.get("yscale", 1.0)
    how = case.get("via_copy")
    facts["via_copy"] = how or "none"
    if how and how[0] == "before":
        m = round_trip(m, how[1])          # an unfitted, configured model that went through persistence / a copy
    r = m.fit(X, y, sample_weight=w)
    require(r is m, "fit:not-self", "", facts)
    if how and how[0] == "refit":
        m = round_trip(m, how[1])          # a fitted model is copied and the copy trained again: every clause below is about the copy
        m.fit(X, y, sample_weight=w)
    require(np.array_equal(X, X0) and np.array_equal(y, y0) and (w is None or np.array_equal(w, w0)), "input-modified", "", facts)
    f = m.predict(X)
    L = pinball(y, f, q, w)
    # the LP is solved in the units of the generator (HiGHS works with absolute feasibility tolerances of 1e-7, which are not small
    # next to targets of 1e-5); the pinball loss is positively homogeneous, so the optimum scales with the unit
    ys = float(case.get("yscale", 1.0))
    Ls = ys * lp_optimum(X, np.asarray(y, dtype=np.float64) / ys, q, np.ones(n) if w is None else w, case["fit_intercept"], case["positive"])
    # absolute slack: the IRLS weights are capped at 1/delta, residuals cannot be resolved below delta (default 1e-4) per row
    scale = 1e-9 * (_delta(case) * 1e4 + float(np.abs(y).sum())) + n * _delta(case)
    eps = EPS[case["max_iter"]]
    require(L <= Ls * (1 + eps) + scale, "fit:not-optimal",
            "pinball loss of the fit %.6g, LP optimum %.6g (ratio %.3f, allowed %.3f) for q=%r" % (L, Ls, L / max(Ls, 1e-300), 1 + eps, q), facts)
    labels = []
    # the model fitted for 1-q must not beat it at q
    if abs(q - 0.5) >= 0.15:
        m2 = _Q(quantile=1 - q, max_iter=case["max_iter"], fit_intercept=case["fit_intercept"], positive=case["positive"], delta=_delta(case)).fit(X, y, sample_weight=w)
        L2 = pinball(y, m2.predict(X), q, w)
        require(L <= L2 * (1 + eps) + scale, "fit:worse-than-1-q-model",
                "loss at q=%r: %.6g for the q model, %.6g for the 1-q model" % (q, L, L2), facts)
        labels.append("1-q-model-clearly-worse" if L2 > 1.05 * L else "1-q-model-close")
    if case["positive"]:
        require(bool(np.all(np.asarray(m.coef_) >= 0)), "positive:negative-coef", "%r" % np.asarray(m.coef_).tolist(), facts)
    if not case["fit_intercept"]:
        require(float(m.intercept_) == 0.0, "fit_intercept:nonzero-intercept", "%r" % m.intercept_, facts)
    if case["fit_intercept"] and not case["positive"] and w is None and case["max_iter"] >= 50:
        below = int((y < f).sum())
        require(abs(below / n - q) <= (d + 3) / n, "fraction-below", "%d of %d targets below the fit for q=%r" % (below, n, q), facts)
        labels.append("fraction-checked")
    require(0 <= int(m.n_iter_) < case["max_iter"], "n_iter", "%r" % m.n_iter_, facts)
    labels += ["q=0.5" if q == 0.5 else ("q-extreme" if abs(q - 0.5) >= 0.3 else "q-mid"), "max_iter=%d" % case["max_iter"],
               "weighted" if w is not None else "unweighted", "positive" if case["positive"] else "free",
               "intercept" if case["fit_intercept"] else "no-intercept"]
    nt = not (0.45 <= q <= 0.55) or w is not None or case["positive"] or not case["fit_intercept"]
    labels.append("numpy-scalar-params" if case.get("np_params") else "python-scalar-params")
    labels.append("yscale=%g" % case.get("yscale", 1.0))
    labels.append("targets:" + case.get("ydtype", "float64"))
    labels.append("via-copy:" + ("-".join(how) if how else "none"))
    labels.append("configured-by-set_params" if case.get("via_set_params") else "configured-by-constructor")
    labels.append("xscale=%g" % (case.get("xscale", 1.0) if not case["fit_intercept"] else 1.0))
    return Outcome(labels, nt)


def check_score(case):
    X, y, w = _data(case)
    n, d = X.shape
    q = case["q"]
    facts = _facts(case)
    if np.linalg.matrix_rank(np.hstack([X, np.ones((n, 1))])) < d + 1:
        return Outcome(["rank-deficient-skipped"], False)
    m = build_via(_Q, np_scalars(dict(quantile=q, max_iter=10, fit_intercept=case["fit_intercept"], positive=case["positive"]), case.get("np_params", False)), case.get("via_set_params")).fit(X, y)
    how = case.get("via_copy")
    facts["via_copy"] = how or "none"
    if how:
        f_before = m.predict(X)
        m = round_trip(m, how[1])           # the fitted model after persistence / a copy scores like the model itself
        require(np.array_equal(m.predict(X), f_before), "copy:predict-differs", "predictions change through %s" % how[1], facts)
    Z = np.array(case["Z"], dtype=np.float64).reshape(-1, d)
    # evaluation set: the training set or other rows with targets built the same way
    yz = Z @ np.array(case["beta"]) + case["b"] + case["amp"] * np.array(case["noise"][::-1][:len(Z)])
    for name, (A, ya) in (("train", (X, y)), ("other", (Z, yz))):
        f = m.predict(A)
        expected = 2.0 * pinball(ya, f, q) / len(ya)
        ykind = case.get("score_y", "vector")
        # the targets handed to score may be a list, a pandas Series or a column (n, 1) - the shape fit documents it accepts
        ya_in = ya.tolist() if ykind == "list" else (ya.reshape(-1, 1) if ykind == "column" else (__import__("pandas").Series(ya) if ykind == "series" else ya))
        s = float(m.score(A, ya_in))
        require(abs(s - expected) <= 1e-12 * (1 + abs(expected)), "score:not-twice-mean-pinball",
                "%s: score=%.12g, 2*mean pinball_q=%.12g, 2*mean pinball_(1-q)=%.12g (q=%r)" % (name, s, expected,
                                                                                          2.0 * pinball(ya, f, 1 - q) / len(ya), q), facts)
        # unit weights are the unweighted score whatever the quantile (sound without defining the weighted mean)
        s1 = float(m.score(A, ya, sample_weight=np.ones(len(ya))))
        require(abs(s1 - s) <= 1e-12 * (1 + abs(s)), "score:unit-weights-differ", "%s: score with sample_weight=ones is %.12g, without %.12g" % (name, s1, s), facts)
        if q == 0.5:
            require(abs(s - mean_absolute_error(ya, f)) <= 1e-12 * (1 + abs(s)), "score:not-mae", "", facts)
            if w is not None and name == "train":
                sw = float(m.score(A, ya, sample_weight=w))
                require(abs(sw - mean_absolute_error(ya, f, sample_weight=w)) <= 1e-12 * (1 + abs(sw)), "score:not-weighted-mae", "", facts)
    # metamorphic: a model with a strictly larger pinball loss never scores better (lower)
    base_loss = pinball(y, m.predict(X), q)
    base_score = float(m.score(X, y))
    for shift in case["shifts"]:
        old = m.intercept_
        m.intercept_ = old + shift
        try:
            loss = pinball(y, m.predict(X), q)
            sc = float(m.score(X, y))
        finally:
            m.intercept_ = old
        if loss > base_loss * (1 + 1e-9):
            require(sc >= base_score - 1e-12 * (1 + abs(base_score)), "score:better-for-worse-fit",
                    "shifting the intercept by %r raises the pinball_q loss %.6g -> %.6g but the score went %.6g -> %.6g" % (
                        shift, base_loss, loss, base_score, sc), facts)
        elif loss < base_loss * (1 - 1e-9):
            require(sc <= base_score + 1e-12 * (1 + abs(base_score)), "score:worse-for-better-fit", "", facts)
    return Outcome(["q=0.5" if q == 0.5 else "q!=0.5", "weighted-mae" if (w is not None and q == 0.5) else "unweighted", "score-targets:" + case.get("score_y", "vector"), "via-copy:" + ("-".join(how) if how else "none")],
                   not (0.45 <= q <= 0.55) or w is not None)


def check_weights(case):
    X, y, w = _data(case)
    n, d = X.shape
    q = case["q"]
    facts = _facts(case)
    wi = np.array(case["w"][:n], dtype=np.int64)
    for zi in case.get("zero_w", []):
        wi[zi % n] = 0                 # weight zero == the row repeated zero times
    keep = wi > 0
    if np.linalg.matrix_rank(np.hstack([X, np.ones((n, 1))])) < d + 1 or keep.sum() < d + 3 or np.linalg.matrix_rank(np.hstack([X[keep], np.ones((int(keep.sum()), 1))])) < d + 1:
        return Outcome(["rank-deficient-skipped"], False)
    kw = dict(quantile=q, max_iter=case["max_iter"], fit_intercept=case["fit_intercept"], positive=case["positive"])
    a = _Q(**kw).fit(X, y, sample_weight=wi.astype(np.float64))
    idx = np.repeat(np.arange(n), wi)
    b = _Q(**kw).fit(X[idx], y[idx])
    pa, pb = a.predict(X), b.predict(X)
    # positive=True goes through scipy's iterative nnls, whose answers for the weighted and the duplicated formulation agree to ~1e-6 only
    tol = (1e-4 if case["positive"] else 1e-8) * (1 + float(np.abs(y).max()))
    require(bool(np.all(np.abs(pa - pb) <= tol)), "weights:not-duplication",
            "max prediction difference %.3g between integer weights and repeated rows" % float(np.abs(pa - pb).max()), facts)
    return Outcome(["max_iter=%d" % case["max_iter"], "q=0.5" if q == 0.5 else "q!=0.5", "non-uniform" if wi.min() != wi.max() else "uniform",
                    "zero-weights" if (wi == 0).any() else "no-zero-weight"], wi.min() != wi.max())


_g = st.integers(-32, 32).map(lambda v: v / 8.0)
_u = st.integers(-999983, 999983).map(lambda v: v / 1e6)


@st.composite
def _cases(draw, tier="quick", weighted=None, for_score=False):
    n = draw(st.integers(8, 40 if tier == "quick" else 60))
    d = draw(st.integers(1, 3))
    X = [[draw(_g) + 0.01 * draw(_u) for _ in range(d)] for _ in range(n)]
    q = draw(st.sampled_from([0.5, 0.5, 0.05, 0.1, 0.2, 0.25, 0.35, 0.4, 0.6, 0.65, 0.75, 0.8, 0.9, 0.95]))
    if draw(st.integers(0, 3)) == 0:
        q = round(draw(st.integers(3, 97)) / 100.0, 2)
    has_w = draw(st.booleans()) if weighted is None else weighted
    case = dict(X=X, beta=[draw(st.integers(-8, 8)) / 4.0 for _ in range(d)], b=draw(st.integers(-8, 8)) / 4.0,
                amp=draw(st.sampled_from([0.1, 1.0, 3.0])),
                noise=[(1 if v > 0 else -1) * (0.01 + 0.99 * abs(v) / 999983.0)
                       for v in draw(st.lists(st.integers(-999983, 999983).filter(lambda v: v != 0), min_size=60, max_size=60, unique=True))], q=q,
                fit_intercept=draw(st.sampled_from([True, True, True, False])), positive=draw(st.sampled_from([False, False, False, True])),
                max_iter=draw(st.sampled_from([10, 50, 300])),
                w=[draw(st.integers(1, 4)) for _ in range(60)] if has_w else None, np_params=draw(st.sampled_from([False, False, True])),
                yscale=draw(st.sampled_from([1.0, 1.0, 1.0, 1e-5, 1e-3, 1e3])))
    if draw(st.integers(0, 4)) == 0:
        case["yscale"], case["ydtype"] = 1e3, "int64"
    if not for_score and not weighted and draw(st.integers(0, 3)) == 0:
        case["outliers"] = [[draw(st.integers(0, 59)), draw(st.sampled_from([1e6, -1e6, 1e4]))] for _ in range(draw(st.integers(1, 3)))]
    if for_score:
        case["score_y"] = draw(st.sampled_from(["vector", "vector", "list", "series", "column"]))
        mz = draw(st.integers(1, 10))
        case["Z"] = [[draw(_g) for _ in range(d)] for _ in range(mz)]
        case["shifts"] = [draw(st.integers(-40, 40)) / 8.0 for _ in range(4)]
    if weighted:
        case["max_iter"] = draw(st.sampled_from([1, 2, 5, 10, 50]))
    case["via_set_params"] = draw(st.sampled_from([False, False, True]))
    case["xscale"] = draw(st.sampled_from([1.0, 1.0, 1.0, 2.0 ** 30, 2.0 ** -20]))     # built with the defaults, then configured with set_params
    if not weighted:
        # one case in three goes through a copy: configured then persisted before fit, or fitted, copied and the copy trained again
        kind = draw(st.sampled_from([None, None, "before", "refit"]))
        if kind:
            case["via_copy"] = [kind, draw(st.sampled_from(["pickle", "deepcopy", "joblib"]))]
    return case


CLAUSES = [
    Clause("fit", check_fit, strategy=lambda tier: with_sk(_cases(tier)), quick=800, thorough=12000, quick_shards=12,
           doc="optimality against the exact LP optimum, q vs 1-q, fraction below, positive / fit_intercept flags"),
    Clause("score", check_score, strategy=lambda tier: with_sk(_cases(tier, for_score=True)), quick=800, thorough=12000, quick_shards=8,
           doc="score == 2 * mean pinball loss of the estimator's own quantile; MAE at 0.5; monotone in the true loss"),
    Clause("weights", check_weights, strategy=lambda tier: st.builds(lambda c, z: dict(c, zero_w=z), _cases(tier, weighted=True),
                                                                     st.one_of(st.just([]), st.lists(st.integers(0, 59), min_size=1, max_size=4))), quick=400, thorough=6000, quick_shards=4,
           doc="integer sample weights == repeated rows"),
]
