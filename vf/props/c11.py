"""C11 - ExtendedFeatures generates exactly scikit-learn's polynomial features."""
from vf import loader
from vf.core import Clause, Outcome, Violation, require, np_scalars, with_np

import re
import numpy as np
from hypothesis import strategies as st
from sklearn.preprocessing import PolynomialFeatures

PROPERTY = "C11"
RULE = ("config-exhaustive: EVERY (n_features 1..7 quick / 1..9 thorough, plus wide inputs 11-12 / 10-14 columns at degree <= 3 so that two-digit names occur) x (degree 0..6 quick / 0..8 thorough, degree 0 only "
        "with the bias column) x interaction_only x include_bias x kind in {poly, poly-slow}, on a matrix whose rows are distinct "
        "primes so that, by unique factorisation, the value in an output column identifies its monomial exactly; "
        "real-matrices: Hypothesis-drawn configuration and dyadic real matrix (zeros, negatives, int64/float32/float64), transformed in four memory layouts, twice, and followed by a second batch of the same shape through the same fitted object (right columns; the first result keeps its values). "
        "tall: 2-4 columns x degree 2-3 on 8739..33333 rows (4097..100003 thorough), sizes at which an implementation may start working block by block. "
        "Oracle: sklearn PolynomialFeatures (same arguments) column by column, and feature names parsed into exponent multisets. "
        "Non-trivial: degree >= 2. One case in three passes its scalar hyper-parameters as NumPy scalars (numpy.bool_, numpy.int64, numpy.float64). Distinct = distinct configuration (exhaustive clause) / distinct case.")
ASSUMPTIONS = ["PolynomialFeatures of the installed scikit-learn is the reference",
               "string equality of feature names with scikit-learn's is not demanded; a name must denote the monomial in its column",
               "the step from 'every configuration on an identifying matrix' to 'all X' rests on the recurrence being data independent"]
TOLERANCES = {"all": "exact (integer-valued / dyadic inputs whose products are exact in the dtype)"}

_ef = loader.module("mlmodel.extended_features")
PRIMES = [2, 3, 5, 7, 11, 13, 17, 19, 23, 29, 31, 37, 41, 43, 47, 53, 59, 61, 67, 71, 73, 79, 83, 89, 97, 101, 103, 107, 109, 113]


def _monomial(value, primes):
    """exponent tuple of an integer that factorises over `primes`"""
    v = int(round(value))
    exps = []
    for p in primes:
        e = 0
        while v % p == 0 and v > 1:
            v //= p
            e += 1
        exps.append(e)
    if v != 1:
        return None
    return tuple(exps)


_tok = re.compile(r"^x(\d+)(?:\^(\d+))?$")


def _parse_name(name, n):
    if name.strip() == "1":
        return tuple([0] * n)
    exps = [0] * n
    for tok in name.split():
        m = _tok.match(tok)
        if not m:
            return None
        i = int(m.group(1))
        if i >= n:
            return None
        exps[i] += int(m.group(2) or 1)
    return tuple(exps)


def _run(cfg, X, facts, np_params=False):
    ef = _ef.ExtendedFeatures(**np_scalars(dict(kind=cfg["kind"], poly_degree=cfg["degree"], poly_interaction_only=cfg["interaction_only"],
                                                poly_include_bias=cfg["include_bias"]), np_params))
    r = ef.fit(X)
    require(r is ef, "fit:not-self", "fit returned %r" % type(r), facts)
    out = ef.transform(X)
    pf = PolynomialFeatures(degree=cfg["degree"], interaction_only=cfg["interaction_only"], include_bias=cfg["include_bias"])
    ref = pf.fit_transform(X)
    require(out.shape == ref.shape, "shape", "ExtendedFeatures %r, PolynomialFeatures %r" % (out.shape, ref.shape), facts)
    require(ef.n_output_features_ == ref.shape[1], "n_output_features", "%r vs %r" % (ef.n_output_features_, ref.shape[1]), facts)
    bad = np.nonzero(~(np.asarray(out, dtype=np.float64) == np.asarray(ref, dtype=np.float64)).all(axis=0))[0]
    if len(bad):
        j = int(bad[0])
        raise Violation("column-differs", "column %d: %r, PolynomialFeatures: %r" % (j, np.asarray(out)[:, j].tolist()[:3],
                                                                                   np.asarray(ref)[:, j].tolist()[:3]), facts)
    return ef, out, ref


def check_config(cfg):
    n = cfg["n"]
    facts = dict(cfg)
    X = np.array([PRIMES[:n], PRIMES[n:2 * n]], dtype=np.float64)
    ef, out, ref = _run(cfg, X, facts)
    # the same configuration reached through set_params on an instance built with the opposite flags (clone + set_params of a grid search)
    ef2 = _ef.ExtendedFeatures(kind=cfg["kind"], poly_degree=cfg["degree"] + 1, poly_interaction_only=not cfg["interaction_only"], poly_include_bias=not cfg["include_bias"])
    ef2.set_params(poly_degree=cfg["degree"], poly_interaction_only=cfg["interaction_only"], poly_include_bias=cfg["include_bias"])
    out2 = ef2.fit(X).transform(X)
    require(np.asarray(out2).shape == np.asarray(out).shape and np.array_equal(np.asarray(out2), np.asarray(out)), "set_params:other-output-than-constructor",
            "an instance configured with set_params transforms differently from one built with the same values", facts)
    require(list(ef2.get_feature_names_out()) == list(ef.get_feature_names_out()), "set_params:other-names-than-constructor", "", facts)
    # the dtype of the result follows the matrix being transformed, not the one seen by fit (a model trained on a float32 sample and
    # applied to float64 data, and the reverse) - what scikit-learn's PolynomialFeatures does
    ef3 = _ef.ExtendedFeatures(kind=cfg["kind"], poly_degree=cfg["degree"], poly_interaction_only=cfg["interaction_only"], poly_include_bias=cfg["include_bias"])
    out3 = np.asarray(ef3.fit(X.astype(np.float32)).transform(X))
    require(out3.dtype == np.asarray(out).dtype and np.array_equal(out3, np.asarray(out)), "dtype:fitted-on-float32-applied-to-float64",
            "fitted on a float32 copy, transform of the float64 matrix has dtype %s and differs from the float64-fitted model's by %r" % (
                out3.dtype, float(np.abs(out3.astype(np.float64) - np.asarray(out, dtype=np.float64)).max()) if out3.shape == np.asarray(out).shape else None), facts)
    out4 = np.asarray(ef.transform(X.astype(np.float32)))
    ref4 = np.asarray(PolynomialFeatures(degree=cfg["degree"], interaction_only=cfg["interaction_only"], include_bias=cfg["include_bias"]).fit(X).transform(X.astype(np.float32)))
    require(out4.dtype == ref4.dtype, "dtype:fitted-on-float64-applied-to-float32", "ExtendedFeatures gives %s, PolynomialFeatures %s" % (out4.dtype, ref4.dtype), facts)
    names = list(ef.get_feature_names_out())
    require(len(names) == out.shape[1], "names:count", "%d names for %d columns" % (len(names), out.shape[1]), facts)
    seen = set()
    for j, name in enumerate(names):
        mono = _monomial(out[0, j], PRIMES[:n])
        require(mono is not None, "column-not-a-monomial", "column %d = %r" % (j, out[0, j]), facts)
        require(mono not in seen, "monomial-twice", "column %d repeats monomial %r" % (j, mono), facts)
        seen.add(mono)
        parsed = _parse_name(name, n)
        require(parsed == mono, "names:wrong-monomial", "column %d holds %r but is named %r" % (j, mono, name), facts)
    # custom input names where one name is contained in another ("a" in "ab"): tokens are matched exactly
    custom = ["a", "ab", "b", "abc", "ba", "x", "xx", "age", "page", "wage", "c1", "c11", "c", "d"][:n]
    def check_custom(cnames, custom, stage=""):
        require(len(cnames) == out.shape[1], "names:count:custom" + stage, "", facts)
        for j, name in enumerate(cnames):
            mono = _monomial(out[0, j], PRIMES[:n])
            exps = [0] * n
            ok = True
            if name.strip() != "1":
                for tok in name.split():
                    base, _, power = tok.partition("^")
                    if base not in custom:
                        ok = False
                        break
                    exps[custom.index(base)] += int(power or 1)
            require(ok and tuple(exps) == mono, "names:wrong-monomial:custom-names" + stage, "column %d holds %r but is named %r (input names %r)" % (j, mono, name, custom), facts)

    check_custom(list(ef.get_feature_names_out(custom)), custom)
    check_custom([str(v) for v in ef.get_feature_names_out(np.array(custom))], custom, ":names-as-numpy-array")      # scikit-learn documents array-like of str
    # the answer is a function of the names GIVEN NOW: further calls with other names, each list a temporary released after its call
    # (a later list may well sit at the address of an earlier one), and one list object edited in place between two calls
    for r in range(3):
        check_custom(list(ef.get_feature_names_out(["%s%d" % ("pqr"[r], i) for i in range(n)])), ["%s%d" % ("pqr"[r], i) for i in range(n)], ":later-call")
    same_list = list(custom)
    ef.get_feature_names_out(same_list)
    same_list[:] = ["z%d" % i for i in range(n)]
    check_custom(list(ef.get_feature_names_out(same_list)), list(same_list), ":list-edited-in-place")
    labels = [cfg["kind"], "interaction" if cfg["interaction_only"] else "all", "bias" if cfg["include_bias"] else "nobias",
              "degree=%d" % cfg["degree"], "n>=degree" if n >= cfg["degree"] else "n<degree"]
    return Outcome(labels, cfg["degree"] >= 2, key=cfg)


def _configs(tier):
    nmax, degs = (7, range(0, 7)) if tier == "quick" else (9, range(0, 9))
    for n in range(1, nmax + 1):
        for degree in degs:
            for io in (False, True):
                for bias in (False, True):
                    if degree == 0 and not bias:
                        continue
                    for kind in ("poly", "poly-slow"):
                        yield dict(n=n, degree=degree, interaction_only=io, include_bias=bias, kind=kind)
    # wide inputs: default names x10, x11, ... contain x1 as a substring
    for n in ((11, 12) if tier == "quick" else (10, 11, 12, 13, 14)):
        for degree in (1, 2, 3):
            for io in (False, True):
                for bias in (False, True):
                    for kind in ("poly", "poly-slow"):
                        yield dict(n=n, degree=degree, interaction_only=io, include_bias=bias, kind=kind)


def check_tall(cfg):
    """many rows (the output crosses the sizes at which an implementation may start working block by block): every row still right"""
    rows, n = cfg["rows"], cfg["n"]
    i = np.arange(rows, dtype=np.float64)[:, None]
    j = np.arange(n, dtype=np.float64)[None, :]
    X = ((i * (j + 3) + 5 * j) % 17 - 8) / 4.0          # dyadic: products are exact, equality is exact
    facts = dict(cfg)
    _run(cfg, X, facts)
    return Outcome([cfg["kind"], "rows=%d" % rows, "degree=%d" % cfg["degree"]], True, key=cfg)


def _tall_configs(tier):
    sizes = (8739, 13108, 20000, 33333) if tier == "quick" else (4097, 6554, 8739, 13108, 20000, 21846, 33333, 65537, 100003)
    for rows in sizes:
        for n in (2, 3, 4):
            for degree in (2, 3):
                for io in (False, True):
                    for kind in ("poly", "poly-slow"):
                        if kind == "poly-slow" and rows > 20000:
                            continue
                        yield dict(rows=rows, n=n, degree=degree, interaction_only=io, include_bias=not io, kind=kind)


def check_real(case):
    cfg = case["cfg"]
    dt = {"float64": np.float64, "float32": np.float32, "int64": np.int64}[case["dtype"]]
    X = np.array(case["X"], dtype=dt).reshape(len(case["X"]), cfg["n"])
    for j in case.get("null_columns", []):
        X[:, j % cfg["n"]] = 0               # a feature that is zero on the whole batch (a one-hot level absent from it, a single row with a zero)
    X0 = X.copy()
    facts = dict(cfg, dtype=case["dtype"])
    ef, out, ref = _run(cfg, X, facts, np_params=case.get("np_params", False))
    require(np.array_equal(X, X0), "input-modified", "", facts)
    # other memory layouts of the same matrix and a second call on the same fitted object give the same columns
    again = ef.transform(X)
    require(np.array_equal(np.asarray(again), np.asarray(out)), "second-call-differs", "", facts)
    # another batch of the same shape through the same fitted object: right columns, and the earlier result (still held by the caller,
    # as when mini-batches are collected in a list) keeps its values
    kept = np.array(out, copy=True)
    X2 = (X[::-1] + 1).astype(dt)
    out_b = ef.transform(X2)
    ref_b = PolynomialFeatures(degree=cfg["degree"], interaction_only=cfg["interaction_only"], include_bias=cfg["include_bias"]).fit_transform(X2)
    require(out_b.shape == ref_b.shape and np.array_equal(np.asarray(out_b, dtype=np.float64), np.asarray(ref_b, dtype=np.float64)),
            "second-batch-differs", "another batch of the same shape through the same object does not give PolynomialFeatures' columns", facts)
    require(np.array_equal(np.asarray(out), kept), "earlier-result-overwritten", "the array returned by the first transform changed when a second batch was transformed", facts)
    for lname, Xv in (("F-order", np.asfortranarray(X.copy())), ("non-contiguous", np.repeat(X, 2, axis=1)[:, ::2]), ("row-view", np.vstack([X, X])[::2])):
        if Xv.shape != X.shape:
            Xv = Xv[:X.shape[0]]
        if not np.array_equal(Xv, X):
            continue
        outv = ef.transform(Xv)
        require(np.array_equal(np.asarray(outv), np.asarray(out)), "layout-differs", "%s input gives other columns" % lname, dict(facts, layout=lname))
    # fit leaves the hyper-parameters as they were given, and the same object fitted again on a WIDER matrix (or its clone) is right again
    gp = ef.get_params()
    require((gp["kind"], int(gp["poly_degree"]), bool(gp["poly_interaction_only"]), bool(gp["poly_include_bias"])) ==
            (cfg["kind"], cfg["degree"], cfg["interaction_only"], cfg["include_bias"]), "fit-changes-params", "get_params after fit: %r" % (gp,), facts)
    Xw = np.hstack([X, (X[:, :1] + 1).astype(dt), (X[:, -1:] * 2).astype(dt)])
    from sklearn.base import clone as _clone
    for label_, obj in (("refit", ef), ("clone", _clone(ef))):
        got_w = np.asarray(obj.fit(Xw).transform(Xw), dtype=np.float64)
        ref_w = np.asarray(PolynomialFeatures(degree=cfg["degree"], interaction_only=cfg["interaction_only"], include_bias=cfg["include_bias"]).fit_transform(Xw), dtype=np.float64)
        require(got_w.shape == ref_w.shape and np.array_equal(got_w, ref_w), "wider-matrix:" + label_,
                "%s on a matrix with two more columns: shape %r, PolynomialFeatures %r" % (label_, got_w.shape, ref_w.shape), facts)
    ef.fit(X)
    # scikit-learn asked for pandas containers: same columns, labelled with the names get_feature_names_out announces
    import sklearn
    with sklearn.config_context(transform_output="pandas"):
        framed = ef.transform(X)
    if hasattr(framed, "columns"):
        require(list(map(str, framed.columns)) == list(map(str, ef.get_feature_names_out())), "pandas-output:names", "%r" % (list(framed.columns)[:6],), facts)
        require(np.array_equal(np.asarray(framed.values, dtype=np.float64), np.asarray(out, dtype=np.float64)), "pandas-output:values", "", facts)
    else:
        require(np.array_equal(np.asarray(framed, dtype=np.float64), np.asarray(out, dtype=np.float64)), "pandas-output:values", "", facts)
    # the other kind agrees too
    other = dict(cfg, kind="poly-slow" if cfg["kind"] == "poly" else "poly")
    _, out2, _ = _run(other, X, dict(facts, kind=other["kind"]))
    require(np.array_equal(np.asarray(out), np.asarray(out2)), "kinds-differ", "poly and poly-slow disagree", facts)
    return Outcome([cfg["kind"], case["dtype"], "degree=%d" % cfg["degree"], "interaction" if cfg["interaction_only"] else "all",
                    "has-zero" if (X == 0).any() else "no-zero", "null-column" if bool((X == 0).all(axis=0).any()) else "no-null-column"], cfg["degree"] >= 2)


@st.composite
def _real_cases(draw, tier="quick"):
    n = draw(st.integers(1, 5 if tier == "quick" else 7))
    degree = draw(st.integers(1, 4 if tier == "quick" else 5))
    cfg = dict(n=n, degree=degree, interaction_only=draw(st.booleans()), include_bias=draw(st.booleans()),
               kind=draw(st.sampled_from(["poly", "poly-slow"])))
    dtype = draw(st.sampled_from(["float64", "float64", "float32", "int64"]))
    rows = draw(st.integers(1, 6))
    if dtype == "float64":
        cell = st.integers(-64, 64).map(lambda k: k / 8.0)
    elif dtype == "float32":
        cell = st.integers(-8, 8).map(lambda k: k / 2.0)
    else:
        cell = st.integers(-9, 9)
    X = draw(st.lists(st.lists(cell, min_size=n, max_size=n), min_size=rows, max_size=rows))
    return dict(cfg=cfg, dtype=dtype, X=X, null_columns=draw(st.lists(st.integers(0, 8), min_size=1, max_size=2)) if draw(st.integers(0, 3)) == 0 else [])


CLAUSES = [
    Clause("config-exhaustive", check_config, cases=_configs, quick_shards=8, thorough_shards=16, exhaustive=True,
           doc="every configuration in the bounds on a prime matrix: columns, n_output_features_, names"),
    Clause("tall", check_tall, cases=_tall_configs, quick_shards=8, thorough_shards=16, exhaustive=True,
           doc="inputs of 4e3..1e5 rows: every row equals PolynomialFeatures'"),
    Clause("real-matrices", check_real, strategy=lambda tier: with_np(_real_cases(tier)), quick=1500, thorough=30000, quick_shards=8,
           doc="drawn configuration x drawn dyadic matrix; both kinds; input untouched"),
]
