"""C15 - learner-to-transformer wrappers are transparent."""
from vf import loader
from vf.core import Clause, Outcome, Violation, require, np_scalars, round_trip, COPIES
from vf import registry as R
from vf import estimators as H

import pickle
import numpy as np
from hypothesis import strategies as st
from sklearn.base import clone

PROPERTY = "C15"
RULE = ("learner: SkBaseTransformLearner(model, method) with model in {LinearRegression, Ridge, trees, LogisticRegression, GaussianNB, "
        "StandardScaler, PCA, recording models} and method in {predict, predict_proba, decision_function, transform, a callable, None}; "
        "stacking: SkBaseTransformStacking over 1-4 such models (already wrapped or not); transfer: TransferTransformer(estimator, method, "
        "copy_estimator, trainable); each with a drawn history fit(d1), transform, fit(d2), transform on two different data sets. Oracles: "
        "transform(Z) equals the wrapped model's own method output as a 2-D array (stacking: the column concatenation of its members' "
        "outputs in order); after fit the wrapped model equals clone(model).fit(X, y) (recording models saw exactly X, y and the forwarded "
        "sample_weight); a non-trainable transfer leaves the wrapped estimator's predictions unchanged whatever it is fitted on; with "
        "copy_estimator the original object is never modified. Non-trivial: a non-default method, two fits on different data, or "
        "non-default trainable/copy flags. Distinct by case JSON.")
ASSUMPTIONS = ["a callable method receives X only (that is how the wrapper calls it)"]
TOLERANCES = {"all": "exact (the same model answers the same rows)"}

_stl = loader.module("sklapi.sklearn_base_transform_learner").SkBaseTransformLearner
_sts = loader.module("sklapi.sklearn_base_transform_stacking").SkBaseTransformStacking
_tt = loader.module("mlmodel.transfer_transformer").TransferTransformer


def _as2d(a):
    a = np.asarray(a)
    return a[:, None] if a.ndim == 1 else a


def _direct(model, method, Z):
    if callable(method):
        return _as2d(method(Z))
    return _as2d(getattr(model, method)(Z))


def _default_method(model):
    m = None
    for name in ["predict_proba", "predict", "transform"]:
        if hasattr(type(model), name):
            m = name
    return m


def _data(d):
    X, y, w = R.materialize(d)
    return X, y, w


def _state(model, Z):
    """observable state of a fitted inner model"""
    out = {}
    for m in ("predict", "predict_proba", "decision_function", "transform"):
        if hasattr(model, m):
            try:
                out[m] = np.asarray(getattr(model, m)(Z))
            except Exception:  # noqa: BLE001
                pass
    return out


def _same_state(a, b):
    if set(a) != set(b):
        return "methods %r vs %r" % (sorted(a), sorted(b))
    for k in a:
        if a[k].shape != b[k].shape or not np.array_equal(a[k], b[k], equal_nan=True):
            return "%s differs" % k
    return None


def check_learner(case):
    facts = dict(model=case["model"]["cls"], method=str(case["method"]))
    datasets = [_data(d) for d in case["datasets"]]
    if isinstance(case["method"], dict) and "bound" in case["method"]:
        # a callable that happens to be a bound method of ANOTHER fitted model of the same class (a teacher): still "a callable applied to X"
        teacher = clone(R.build(case["model"]))
        Xt, yt, _ = datasets[0]
        teacher.fit(np.ascontiguousarray(Xt[::-1]), yt)
        method = getattr(teacher, case["method"]["bound"])
    else:
        method = R.build_value(case["method"])
    model = R.build(case["model"])
    w = _stl(model=model, method=method)
    eff = method if method is not None else _default_method(model)
    facts["effective"] = str(eff) if not callable(eff) else "callable"
    require(w.method == eff or (callable(eff) and w.method is eff), "learner:default-method", "method %r chosen for %s" % (w.method, type(model).__name__), facts)
    nfit = 0
    nset = 0
    cur_spec = case["model"]
    last = None
    for op in case["history"]:
        if op[0] == "set_method":
            # a valid method for this kind of model, set through the parameter API (Pipeline / GridSearchCV do this)
            new_m = R.build_value(op[1])
            r = w.set_params(method=new_m)
            require(r is w, "learner:set_params-not-self", "", facts)
            eff = new_m
            facts["effective"] = str(eff) if not callable(eff) else "callable"
            nset += 1
            if last is not None:
                Z = last
                out = w.transform(Z)
                exp = _direct(w.model, eff, Z)
                require(np.asarray(out).shape == exp.shape and np.array_equal(out, exp, equal_nan=True), "learner:transform-differs:after-set_params",
                        "after set_params(method=%s) transform(Z) is not model.%s(Z)" % (facts["effective"], facts["effective"]), facts)
            continue
        if op[0] == "set_model":
            cur_spec = op[1]
            r = w.set_params(model=R.build(cur_spec))
            require(r is w, "learner:set_params-not-self", "", facts)
            model = w.model
            last = None
            nset += 1
            continue
        i, use_w = op[1], op[2]
        via_ft = len(op) > 3 and op[3] == "fit_transform"
        X, y, sw = datasets[i]
        kw = dict(sample_weight=sw) if (use_w and sw is not None and not hasattr(w.model, "transform")) else {}
        X0, y0 = X.copy(), y.copy()
        if via_ft:
            # trained through fit_transform, as a Pipeline trains every step but the last: same training, and the array it returns is
            # transform(X) of the trained wrapper
            ft_out = w.fit_transform(X, y, **kw)
            r = w
            facts["via"] = "fit_transform"
        else:
            r = w.fit(X, y, **kw)
        nfit += 1
        require(r is w, "learner:fit-not-self", "", facts)
        if via_ft:
            require(np.array_equal(np.asarray(ft_out), np.asarray(w.transform(X)), equal_nan=True), "learner:fit_transform-is-not-transform-after-fit", "", facts)
        require(np.array_equal(X, X0) and np.array_equal(y, y0), "learner:fit-writes-input", "", facts)
        ref = clone(R.build(cur_spec))
        ref.fit(X, y, **kw)
        Z = np.vstack([X[:4], X[::3]])
        last = Z
        d = _same_state(_state(w.model, Z), _state(ref, Z))
        require(d is None, "learner:not-trained-like-direct-fit", "the wrapped model differs from clone(model).fit(X, y): %s" % d, facts)
        if isinstance(w.model, (H.RecordingRegressor, H.RecordingClassifier)):
            require(np.array_equal(w.model.seen_X_, X) and np.array_equal(np.asarray(w.model.seen_y_, dtype=np.float64), np.asarray(y, dtype=np.float64)),
                    "learner:inner-saw-other-data", "", facts)
            require((w.model.seen_w_ is None) == (not kw) and (not kw or np.array_equal(w.model.seen_w_, kw["sample_weight"])), "learner:fit-kwargs-not-forwarded", "", facts)
        # a batch of exactly one row: still one output row
        one = np.asarray(w.transform(Z[:1]))
        exp1 = _direct(w.model, eff, Z[:1])
        require(one.shape == exp1.shape and one.shape[0] == 1 and np.array_equal(one, exp1, equal_nan=True), "learner:single-row-batch",
                "transform of a one-row batch has shape %r, model.%s gives %r" % (one.shape, facts["effective"], exp1.shape), facts)
        out = w.transform(Z)
        exp = _direct(w.model, eff, Z)
        require(np.asarray(out).ndim == 2, "learner:not-2d", "%r" % (np.asarray(out).shape,), facts)
        require(np.asarray(out).shape == exp.shape and np.array_equal(out, exp, equal_nan=True) and np.asarray(out).dtype == exp.dtype,
                "learner:transform-differs" + (":after-set_params" if nset else ""), "transform(Z) is not model.%s(Z)" % facts["effective"], facts)
    return Outcome([facts["model"], "method=" + facts["effective"], "given=" + ("None" if method is None else "explicit"), "fits=%d" % nfit,
                    "set_params=%d" % min(nset, 2)], method is not None or nset > 0 or len(set(h[1] for h in case["history"] if h[0] == "fit")) > 1)


def _models_for(kind, draw):
    if kind == "reg":
        return R.s_regressor(draw, recording=True, kwargs_fit=True)
    if kind == "clf":
        return R.s_classifier(draw, recording=True)
    return R.s_transformer(draw)


@st.composite
def _learner_cases(draw, tier="quick"):
    kind = draw(st.sampled_from(["reg", "clf", "tr"]))
    model = _models_for(kind, draw)
    if kind == "reg":
        method = draw(st.sampled_from([None, "predict", {"fn": "col_sum"}, {"fn": "col_first_two"}]))
        datasets = [R.d_reg(draw), R.d_reg(draw)]
    elif kind == "clf":
        ms = [None, "predict", "predict_proba"]
        if model["cls"] in ("LogisticRegression", "RecordingClassifier"):
            ms.append("decision_function")
        method = draw(st.sampled_from(ms))
        datasets = [R.d_clf(draw), R.d_clf(draw)]
    else:
        method = draw(st.sampled_from([None, "transform"]))
        datasets = [R.d_reg(draw), R.d_reg(draw)]
    if kind == "reg":
        alt_methods = ["predict", {"fn": "col_sum"}]
    elif kind == "clf":
        alt_methods = ["predict", "predict_proba"]
    else:
        alt_methods = ["transform"]
    hist = [["fit", draw(st.integers(0, 1)), draw(st.booleans()), draw(st.sampled_from(["fit", "fit", "fit_transform"]))]]
    for _ in range(draw(st.integers(0, 3))):
        k = draw(st.sampled_from(["fit", "fit", "set_method", "set_model"]))
        if k == "fit":
            hist.append(["fit", draw(st.integers(0, 1)), draw(st.booleans()), draw(st.sampled_from(["fit", "fit", "fit_transform"]))])
        elif k == "set_method":
            hist.append(["set_method", draw(st.sampled_from(alt_methods))])
        else:
            hist.append(["set_model", _models_for(kind, draw) if kind != "clf" else R.s_classifier(draw)])
            hist.append(["fit", draw(st.integers(0, 1)), draw(st.booleans()), draw(st.sampled_from(["fit", "fit", "fit_transform"]))])
    if kind == "clf" and method == "decision_function" and any(h[0] == "set_model" for h in hist):
        method = "predict_proba"       # a replacement model may have no decision_function (model and method are interdependent)
    if kind in ("reg", "clf") and draw(st.integers(0, 7)) == 0:
        method = {"bound": "predict"}
        for h in hist:
            if h[0] == "fit":
                h[1] = 0               # the teacher knows the columns of data set 0 only
    return dict(model=model, method=method, datasets=datasets, history=hist, Q=[])


# ------------------------------------------------------------------------------- stacking
def check_stacking(case):
    facts = dict(n=len(case["members"]), method=str(case["method"]))
    members = []
    for mspec in case["members"]:
        obj = R.build(mspec["model"])
        if mspec["wrap"]:
            obj = _stl(model=obj, method=mspec["wrap_method"])
        members.append(obj)
    st_ = _sts(models=list(members), method=case["method"])
    eff_method = case["method"] or "predict"
    datasets = [_data(d) for d in case["datasets"]]
    all_learners = all(not hasattr(R.resolve(m_["model"]["cls"]), "transform") for m_ in case["members"])
    for i in case["history"]:
        X, y, sw_ = datasets[i]
        kw = dict(sample_weight=sw_) if (case.get("use_weights") and sw_ is not None and all_learners) else {}
        if kw and case.get("zero_w"):
            sw_ = sw_.copy()
            for zi in case["zero_w"]:
                sw_[zi % len(sw_)] = 0.0          # exact zeros are legal weights: every member still receives all rows
            kw = dict(sample_weight=sw_)
        if case.get("via_fit_transform"):
            ft_out = st_.fit_transform(X, y, **kw)
            r = st_
            require(np.array_equal(np.asarray(ft_out), np.asarray(st_.transform(X)), equal_nan=True), "stacking:fit_transform-is-not-transform-after-fit", "", facts)
        else:
            r = st_.fit(X, y, **kw)
        require(r is st_, "stacking:fit-not-self", "", facts)
        Z = np.vstack([X[:3], X[::4]])
        out = np.asarray(st_.transform(Z))
        cols = []
        for j, (mspec, m) in enumerate(zip(case["members"], st_.models)):
            ref = clone(R.build(mspec["model"])).fit(X, y, **kw)
            if mspec["wrap"]:
                meth = mspec["wrap_method"] or _default_method(ref)
                if isinstance(meth, str) and meth != eff_method and hasattr(ref, eff_method):
                    meth = eff_method        # the stacking re-wraps a learner whose method differs from its own
            elif hasattr(ref, "transform"):
                meth = "transform"
            else:
                meth = eff_method
            cols.append(_direct(ref, meth, Z))
        exp = np.hstack(cols)
        one = np.asarray(st_.transform(Z[:1]))
        require(one.shape == (1, exp.shape[1]) and bool(np.allclose(one.astype(np.float64), exp[:1].astype(np.float64), rtol=1e-9, atol=1e-9, equal_nan=True)), "stacking:single-row-batch",
                "transform of a one-row batch has shape %r, expected %r" % (one.shape, (1, exp.shape[1])), facts)
        require(out.shape == exp.shape, "stacking:shape", "%r vs %r (members %r)" % (out.shape, exp.shape, [c.shape[1] for c in cols]), facts)
        require(np.array_equal(out, exp, equal_nan=True), "stacking:not-concatenation", "transform is not the column concatenation of its members' own outputs", facts)
        kinds = "".join(np.asarray(c).dtype.kind for c in cols)
    return Outcome(["members=%d" % len(members), "method=%s" % case["method"], "some-wrapped" if any(m["wrap"] for m in case["members"]) else "raw",
                    "task=" + case.get("task", "reg"), "int-output-before-float-output" if ("if" in kinds or "uf" in kinds) else "outputs:" + ("mixed" if len(set(kinds)) > 1 else "one-dtype")],
                   len(members) >= 2)


@st.composite
def _stacking_cases(draw, tier="quick"):
    n = draw(st.one_of(st.integers(1, 4), st.integers(1, 4), st.integers(10, 13)))          # two-digit positions (models_10 sorts before models_2)
    # task 'clf': integer class labels as the target, so that classifiers (integer outputs), regressors (float outputs) and transformers sit
    # side by side in one stacking, in any order
    task = draw(st.sampled_from(["reg", "reg", "clf"]))
    members = []
    for _ in range(n):
        kind = draw(st.sampled_from(["reg", "reg", "tr"] if task == "reg" else ["clf", "clf", "reg", "tr"]))
        wrap = kind in ("reg", "clf") and draw(st.booleans())
        # recording members answer with a signature of the training set they were given (number of rows, weighted target sum)
        model = R.s_regressor(draw, recording=True) if kind == "reg" else (R.s_classifier(draw) if kind == "clf" else _models_for(kind, draw))
        members.append(dict(model=model, wrap=wrap, wrap_method="predict" if (wrap and kind == "clf") else (draw(st.sampled_from([None, "predict"])) if wrap else None)))
    if task == "clf" and draw(st.integers(0, 3)) == 0:
        # two wrapped members of different classes whose hyper-parameters have the same names and values (a k-NN classifier and a k-NN
        # regressor): each contributes its OWN block
        k = draw(st.sampled_from([3, 5]))
        pair = [dict(model=dict(cls="KNeighborsClassifier", params=dict(n_neighbors=k)), wrap=True, wrap_method="predict"),
                dict(model=dict(cls="KNeighborsRegressor", params=dict(n_neighbors=k)), wrap=True, wrap_method="predict")]
        at = draw(st.integers(0, len(members)))
        members = members[:at] + pair[::draw(st.sampled_from([1, -1]))] + members[at:]
    datasets = [R.d_reg(draw), R.d_reg(draw)] if task == "reg" else [R.d_clf(draw), R.d_clf(draw)]
    return dict(members=members, method=draw(st.sampled_from([None, "predict"])), datasets=datasets, use_weights=draw(st.booleans()) and task == "reg",
                history=[draw(st.integers(0, 1)) for _ in range(draw(st.integers(1, 3)))], task=task,
                zero_w=draw(st.lists(st.integers(0, 30), max_size=3)) if draw(st.integers(0, 2)) == 0 else [],
                via_fit_transform=draw(st.integers(0, 2)) == 0)


# ------------------------------------------------------------------------------- transfer
def check_transfer(case):
    facts = dict(estimator=case["estimator"]["cls"], copy_estimator=case["copy_estimator"], trainable=case["trainable"], method=str(case["method"]))
    datasets = [_data(d) for d in case["datasets"]]
    X0, y0, _ = datasets[0]
    est = R.build(case["estimator"])
    est.fit(X0, y0)
    Z = np.vstack([X0[:4], X0[::3]])
    before = _state(est, Z)
    blob = pickle.dumps(est)
    # the two flags may come as NumPy booleans or 0/1 (a flag computed from data, an element of a parameter grid built from an array)
    flags = dict(copy_estimator=case["copy_estimator"], trainable=case["trainable"])
    fk = case.get("flag_kind", "bool")
    if fk == "numpy":
        flags = np_scalars(flags)
    elif fk == "int":
        flags = {k: int(v) for k, v in flags.items()}
    facts["flag_kind"] = fk
    tt = _tt(est, method=case["method"], **flags)
    eff = tt.method
    for i in case["history"]:
        X, y, _ = datasets[i]
        Xc, yc = X.copy(), y.copy()
        r = tt.fit(X, y)
        require(r is tt, "transfer:fit-not-self", "", facts)
        require(np.array_equal(X, Xc) and np.array_equal(y, yc), "transfer:fit-writes-input", "", facts)
        Zi = Z if X.shape[1] == X0.shape[1] else None
        if not case["trainable"]:
            d = _same_state(_state(tt.estimator_, Z), before)
            require(d is None, "transfer:frozen-model-changed", "fit changed the predictions of a non-trainable transfer: %s" % d, facts)
            d = _same_state(_state(est, Z), before)
            require(d is None, "transfer:original-changed", "the wrapped estimator object was modified: %s" % d, facts)
            out = _as2d(tt.transform(Z)) if getattr(np.asarray(tt.transform(Z)), "ndim", 2) else None
            exp = _as2d(getattr(pickle.loads(blob), eff)(Z))
            require(np.array_equal(np.asarray(_as2d(tt.transform(Z))), exp, equal_nan=True), "transfer:transform-differs", "transform is not the wrapped estimator's %s" % eff, facts)
            if case["copy_estimator"] and case.get("mutate_original"):
                # a copy is independent: updating the original's fitted arrays in place afterwards (what partial_fit or a
                # warm-started refit do) must not change what the frozen copy answers
                touched = 0
                for attr, val in list(vars(est).items()):
                    if attr.endswith("_") and isinstance(val, np.ndarray) and val.dtype.kind == "f" and val.size:
                        val *= 1.5
                        val += 0.25
                        touched += 1
                if touched:
                    require(np.array_equal(np.asarray(_as2d(tt.transform(Z))), exp, equal_nan=True), "transfer:copy-shares-state",
                            "copy_estimator=True but the transfer's output changed when the original estimator's fitted arrays were updated in place", facts)
                    if case.get("via_copy"):
                        # ... nor what a persisted / deep-copied transfer answers: the frozen copy travels with the transfer
                        tt2 = round_trip(tt, case["via_copy"])
                        require(np.array_equal(np.asarray(_as2d(tt2.transform(Z))), exp, equal_nan=True), "transfer:copy-of-transfer-follows-original",
                                "copy_estimator=True: a %s copy of the fitted transfer answers like the original estimator as modified afterwards, not like the frozen copy" % case["via_copy"], facts)
                    # restore the original for the rest of the history
                    est = pickle.loads(blob)
                    tt.estimator = est
                    before = _state(est, Z)
            if case.get("retrain_original") and not case.get("mutate_original"):
                # the SAME estimator object is trained again by its owner (other rows first), then the transfer is fitted again: a frozen
                # transfer answers like the estimator it is given at fit time - the retrained one
                try:
                    est.fit(np.ascontiguousarray(X0[::-1] * 0.5 + 0.25), y0)
                except Exception:  # noqa: BLE001
                    est = pickle.loads(blob)
                    tt.estimator = est
                blob = pickle.dumps(est)
                before = _state(est, Z)
                tt.fit(X, y)
                require(np.array_equal(np.asarray(_as2d(tt.transform(Z))), _as2d(getattr(pickle.loads(blob), eff)(Z)), equal_nan=True), "transfer:transform-differs:after-the-original-was-retrained",
                        "the estimator object was trained again and the transfer fitted again: transform still answers like the earlier model", facts)
        else:
            ref = clone(R.build(case["estimator"])).fit(X, y)
            Zt = np.vstack([X[:4], X[::3]])
            require(np.array_equal(np.asarray(tt.transform(Zt)), np.asarray(getattr(ref, eff)(Zt)), equal_nan=True), "transfer:trainable-not-trained",
                    "a trainable transfer does not answer like the estimator trained on the data it was fitted on", facts)
            if case["copy_estimator"]:
                d = _same_state(_state(est, Z), before)
                require(d is None, "transfer:original-changed", "copy_estimator=True but the original estimator was retrained: %s" % d, facts)
    return Outcome(["copy" if case["copy_estimator"] else "reference", "trainable" if case["trainable"] else "frozen", "method=%s" % eff,
                    facts["estimator"], "flags:" + fk], case["trainable"] or not case["copy_estimator"] or len(set(case["history"])) > 1)


@st.composite
def _transfer_cases(draw, tier="quick"):
    kind = draw(st.sampled_from(["reg", "clf", "tr"]))
    if kind == "reg":
        est, ms, ds = R.s_regressor(draw), [None, "predict"], [R.d_reg(draw), R.d_reg(draw)]
    elif kind == "clf":
        est, ms, ds = R.s_classifier(draw), [None, "predict", "predict_proba"], [R.d_clf(draw), R.d_clf(draw)]
    else:
        est, ms, ds = R.s_transformer(draw), [None, "transform"], [R.d_reg(draw), R.d_reg(draw)]
    # both data sets need the same number of columns for a frozen model to transform them
    d = len(ds[0]["X"][0])
    ds[1]["X"] = [(row + [0.0] * d)[:d] for row in ds[1]["X"]]
    return dict(estimator=est, method=draw(st.sampled_from(ms)), copy_estimator=draw(st.booleans()), trainable=draw(st.booleans()), datasets=ds,
                mutate_original=draw(st.booleans()), retrain_original=draw(st.booleans()), via_copy=draw(st.sampled_from(COPIES)), flag_kind=draw(st.sampled_from(["bool", "bool", "numpy", "int"])),
                history=[draw(st.integers(0, 1)) for _ in range(draw(st.integers(1, 3)))])


CLAUSES = [
    Clause("learner", check_learner, strategy=lambda tier: _learner_cases(tier), quick=2400, thorough=30000, quick_shards=8,
           doc="SkBaseTransformLearner.transform == model.<method>, wrapped model trained like a direct fit, kwargs forwarded"),
    Clause("stacking", check_stacking, strategy=lambda tier: _stacking_cases(tier), quick=1600, thorough=20000, quick_shards=8,
           doc="SkBaseTransformStacking.transform == column concatenation of its members' own outputs"),
    Clause("transfer", check_transfer, strategy=lambda tier: _transfer_cases(tier), quick=2400, thorough=30000, quick_shards=8,
           doc="TransferTransformer output, frozen unless trainable, original untouched with copy_estimator"),
]
