"""C10 - DecisionTreeLogisticRegression is a consistent tree of binary classifiers."""
from vf import loader
from vf.core import Clause, Outcome, Violation, require, np_scalars, with_np, with_sk, round_trip, COPIES, build_via
from vf.estimators import CentroidClassifier, SkewedClassifier

import math
import numpy as np
from hypothesis import strategies as st
from sklearn.linear_model import LogisticRegression
from sklearn.tree import DecisionTreeClassifier

PROPERTY = "C10"
RULE = ("Hypothesis draws binary data (two label values of any kind: ints incl. negative, floats, strings and words of different lengths (object and fixed-width unicode arrays), either order; n 10..50, "
        "d 1..3, two noisy blobs or XOR-like layouts so that trees get deeper than one node), max_depth 1..5, min_samples_leaf, "
        "min_samples_split, fit_improve_algo in {auto, none, intercept_sort, intercept_sort_always}, gamma, p1p2, base estimator in "
        "{LogisticRegression, DecisionTreeClassifier(max_depth=2), CentroidClassifier}, and a query batch. Oracle: observable clauses "
        "(probability rows are distributions, predict == classes_[p1>=0.5], decision_path shape / root column / path length <= "
        "tree_depth_ <= max_depth, terminal node listed by get_leaves_index) and a reference traversal of the documented tree_ "
        "attribute (go above iff the node classifier's p1 > threshold and that child exists) that must reproduce the marked path and "
        "the returned probabilities for every row. Non-trivial: fitted tree with >= 3 nodes. One case in three passes its scalar hyper-parameters as NumPy scalars (numpy.bool_, numpy.int64, numpy.float64). Distinct by case JSON.")
ASSUMPTIONS = ["rows whose probability at some node is within 1e-12 of the threshold are excluded from routing assertions (BLAS results depend on batch composition at 1e-16)",
               "the structural clauses read tree_/above/below/estimator/threshold/index; if these names are absent they are reported unavailable, never a violation",
               "intercept_sort_always with a non-linear base estimator is a documented refusal (AssertionError)"]
TOLERANCES = {"probabilities": "1e-9"}

_mod = loader.module("mlmodel.decision_tree_logreg")


def _base(name):
    if name == "logreg":
        return LogisticRegression(max_iter=300)
    if name == "tree":
        return DecisionTreeClassifier(max_depth=2, random_state=0)
    if name == "nested":
        # a tree of logistic regressions whose node classifier is itself such a tree (depth 1): one is fitted while another is being fitted
        return _mod.DecisionTreeLogisticRegression(estimator=LogisticRegression(max_iter=300), max_depth=1)
    if name == "skewed":
        # decision_function is not the logit of predict_proba (as for bagged or calibrated models): the statement routes by probability
        return SkewedClassifier(shift=0.75)
    return CentroidClassifier()


WORDS = ["a", "no", "yes", "b", "abc", "positive", "negative", "0", "10", "x y", "N", "maybe not"]


def _labels_of(case):
    kind, a, b = case["label_kind"], case["la"], case["lb"]
    z = np.array(case["z"], dtype=int)
    if kind == "str":
        vals = np.array(["c%s" % a, "c%s" % b], dtype=object)
    elif kind in ("words", "words-u"):
        # words of different lengths, as an object array or a fixed-width unicode array (numpy would truncate a longer word written into a
        # narrower array)
        vals = np.array([WORDS[a % len(WORDS)], WORDS[b % len(WORDS)]], dtype=object if kind == "words" else None)
    elif kind == "float":
        vals = np.array([a + 0.5, b + 0.5])
    else:
        vals = np.array([a, b])
    return vals[z]


def _nodes(root):
    out, stack = [], [root]
    while stack:
        nd = stack.pop()
        out.append(nd)
        for ch in (getattr(nd, "above", None), getattr(nd, "below", None)):
            if ch is not None:
                stack.append(ch)
    return out


def check(case):
    X = np.array(case["X"], dtype=np.float64)
    xd = case.get("xdtype", "float64")
    if xd != "float64":
        # features that are not float64 (counts as int64 / uint8, a float32 pipeline): the labels are the caller's, whatever the features' dtype
        X = (np.round(X * 4) + (96 if xd == "uint8" else 0) if xd in ("int64", "uint8") else X).astype(xd)
    n, d = X.shape
    y = _labels_of(case)
    Q = np.vstack([np.array(case["Q"], dtype=np.float64).reshape(-1, d), X[::3]])
    o = case["opts"]
    facts = dict(base=case["base"], algo=o["fit_improve_algo"], max_depth=o["max_depth"], label_kind=case["label_kind"], xdtype=xd)
    m = build_via(_mod.DecisionTreeLogisticRegression, dict(estimator=_base(case["base"]), **np_scalars(dict(
        max_depth=o["max_depth"], min_samples_split=o["min_samples_split"], min_samples_leaf=o["min_samples_leaf"],
        fit_improve_algo=o["fit_improve_algo"], p1p2=o["p1p2"], gamma=o["gamma"]), case.get("np_params", False))),
                  case.get("via_set_params"), dict(estimator=_base(case["base"])))       # built with the class defaults (max_depth=20, 'auto'), then set_params
    X0 = X.copy()
    try:
        r = m.fit(X, y)
    except AssertionError as e:
        if o["fit_improve_algo"] == "intercept_sort_always" and case["base"] != "logreg" and "not linear" in str(e):
            return Outcome(["refused:nonlinear-intercept_sort_always"], False)
        raise
    require(r is m, "fit:not-self", "", facts)
    require(np.array_equal(X, X0), "input-modified", "", facts)
    if case.get("via_copy"):
        # the fitted model after persistence / a deep copy: every clause below is about the copy
        m = round_trip(m, case["via_copy"])
    facts["via_copy"] = case.get("via_copy") or "none"
    classes = list(m.classes_)
    require(len(classes) == 2 and set(classes) == set(y.tolist()), "classes_", "%r" % (classes,), facts)
    nn = int(m.n_nodes_)
    # probes a hair away from a node's border (2e-8 .. 6e-8 relative, on both sides): float64 rows that a float32 copy would move across
    probes = []
    root0 = getattr(m, "tree_", None)
    for nd in ([root0] + [getattr(root0, a, None) for a in ("above", "below")]) if root0 is not None else []:
        est_ = getattr(nd, "estimator", None)
        thr = getattr(nd, "threshold", None)
        if est_ is None or not hasattr(est_, "coef_") or thr is None or not (0 < float(thr) < 1):
            continue
        wv = np.asarray(est_.coef_, dtype=np.float64).ravel()
        if wv.shape != (d,) or not np.all(np.isfinite(wv)) or float(wv @ wv) < 1e-12:
            continue
        c = math.log(float(thr) / (1 - float(thr))) - float(np.asarray(est_.intercept_).ravel()[0])
        for x0 in X[:2]:
            xb = x0 + (c - float(wv @ x0)) / float(wv @ wv) * wv
            step = 2e-8 * max(1.0, float(np.abs(xb).max())) / math.sqrt(float(wv @ wv))
            probes.extend([xb + k * step * wv for k in (-3, -1, 1, 3)])
    if probes and case.get("border_probes", True):
        Q = np.vstack([Q, np.array(probes)])
    if case.get("warmup", True) and len(Q) >= 2:
        # the batch object was already used for another content (reversed rows), then edited in place: the clauses below are stated for
        # what the array holds NOW, whatever the same object held at an earlier call
        Qfinal = Q.copy()
        Q[:] = Qfinal[::-1]
        m.predict(Q)
        m.predict_proba(Q)
        Q[:] = Qfinal
    P = np.asarray(m.predict_proba(Q))
    mq = len(Q)
    require(P.shape == (mq, 2), "proba:shape", "%r" % (P.shape,), facts)
    require(bool(np.all(P >= 0)) and bool(np.all(np.abs(P.sum(axis=1) - 1) <= 1e-9)), "proba:not-a-distribution", "", facts)
    pred = np.asarray(m.predict(Q))
    exp_pred = np.asarray(m.classes_)[(P[:, 1] >= 0.5).astype(int)]
    require(pred.shape == (mq,) and bool(np.all(pred == exp_pred)), "predict:not-classes-at-0.5", "%r vs %r" % (pred.tolist()[:5], exp_pred.tolist()[:5]), facts)
    if case.get("shared_base", True) and hasattr(m, "estimator"):
        # the base estimator instance handed to this tree is handed to a second one, trained on the swapped labels (a loop over targets
        # re-using one LogisticRegression()): this tree's nodes are its own fit's business
        try:
            other = _mod.DecisionTreeLogisticRegression(estimator=m.estimator, max_depth=o["max_depth"])
            other.fit(X, np.where(y == classes[0], classes[1], classes[0]))
        except Exception:  # noqa: BLE001
            pass
        require(np.array_equal(np.asarray(m.predict_proba(Q)), P), "proba:moved-by-another-tree-on-the-same-base-estimator",
                "after a second tree was trained around the same base estimator instance, this tree answers differently", facts)
    DP = m.decision_path(Q)
    DPd = np.asarray(DP.todense())
    require(DPd.shape == (mq, nn), "decision_path:shape", "%r for n_nodes_=%d" % (DPd.shape, nn), facts)
    require(bool(np.all((DPd == 0) | (DPd == 1))), "decision_path:not-0/1", "", facts)
    require(bool(np.all(DPd[:, 0] == 1)), "decision_path:root-missing", "", facts)
    depth = int(m.tree_depth_)
    require(depth <= o["max_depth"], "depth:exceeds-max_depth", "%d > %d" % (depth, o["max_depth"]), facts)
    require(int(DPd.sum(axis=1).max()) <= depth, "decision_path:longer-than-depth", "", facts)
    if case.get("warmup", True):
        m.get_leaves_index()               # an accessor: asking twice (or after the other methods) gives the same answer
    leaves = [int(i) for i in m.get_leaves_index()]
    again = np.asarray(m.decision_path(Q).todense())
    require(np.array_equal(again, DPd), "decision_path:second-call-differs", "", facts)
    require(np.array_equal(np.asarray(m.predict_proba(Q)), P), "proba:second-call-differs", "", facts)
    require(len(set(leaves)) == len(leaves) and all(0 <= i < nn for i in leaves), "leaves:index-range", "%r" % leaves, facts)
    terminal = np.array([int(np.nonzero(row)[0].max()) for row in DPd])
    require(set(terminal.tolist()) <= set(leaves), "leaves:terminal-not-listed", "terminal nodes %r, get_leaves_index %r" % (sorted(set(terminal.tolist())), leaves), facts)

    structural = "unavailable"
    root = getattr(m, "tree_", None)
    n_nodes_real = None
    ambiguous = 0
    if root is not None and all(hasattr(root, a) for a in ("estimator", "threshold", "above", "below", "index")):
        structural = "checked"
        nodes = _nodes(root)
        idx = [int(nd.index) for nd in nodes]
        n_nodes_real = len(nodes)
        require(len(set(idx)) == len(idx), "nodes:index-not-distinct", "%r" % sorted(idx), facts)
        require(all(0 <= i < nn for i in idx), "nodes:index-not-below-n_nodes", "%r, n_nodes_=%d" % (sorted(idx), nn), facts)
        require(int(root.index) == 0, "nodes:root-index", "%r" % root.index, facts)
        ref_leaves = sorted(int(nd.index) for nd in nodes if nd.above is None or nd.below is None)
        require(ref_leaves == sorted(leaves), "leaves:differs", "get_leaves_index %r, nodes lacking a child %r" % (sorted(leaves), ref_leaves), facts)
        # reference traversal, node by node, batch per node
        probs = {int(nd.index): np.asarray(nd.estimator.predict_proba(Q)) for nd in nodes}
        for j in range(mq):
            nd = root
            path = []
            amb = False
            while True:
                path.append(int(nd.index))
                p1 = probs[int(nd.index)][j, 1]
                if abs(p1 - nd.threshold) < 1e-12:
                    amb = True
                    break
                nxt = nd.above if p1 > nd.threshold else nd.below
                if nxt is None:
                    break
                nd = nxt
            if amb:
                ambiguous += 1
                continue
            marked = np.nonzero(DPd[j])[0].tolist()
            require(sorted(path) == marked, "decision_path:differs-from-traversal", "row %d: marked %r, traversal %r" % (j, marked, path), facts)
            exp = probs[path[-1]][j]
            require(bool(np.all(np.abs(P[j] - exp) <= 1e-9)), "proba:not-terminal-node", "row %d: %r, terminal node %d answers %r" % (j, P[j].tolist(), path[-1], exp.tolist()), facts)
    nreal = n_nodes_real if n_nodes_real is not None else len(set(np.nonzero(DPd)[1].tolist()))
    labels = [case["base"], "algo=" + str(o["fit_improve_algo"]), "nodes=1" if nreal == 1 else ("nodes=2" if nreal == 2 else ("nodes<=6" if nreal <= 6 else "nodes>6")),
              "structural-" + structural, "labels=" + case["label_kind"], "ambiguous-rows" if ambiguous else "no-ambiguous-row",
              "via-copy:" + str(case.get("via_copy") or "none"), "border-probes" if probes else "no-border-probe",
              "configured-by-set_params" if case.get("via_set_params") else "configured-by-constructor", "features:" + xd]
    return Outcome(labels, nreal >= 3)


_cell = st.integers(-24, 24).map(lambda v: v / 4.0)


@st.composite
def _cases(draw, tier="quick"):
    n = draw(st.integers(10, 36 if tier == "quick" else 60))
    d = draw(st.integers(1, 3))
    layout = draw(st.sampled_from(["blobs", "xor", "random", "stripes"]))
    X, z = [], []
    for i in range(n):
        row = [draw(_cell) for _ in range(d)]
        if layout == "blobs":
            c = draw(st.integers(0, 1))
            row[0] = row[0] / 3.0 + (3.0 if c else -3.0)
            if draw(st.integers(0, 9)) == 0:
                c = 1 - c
        elif layout == "xor":
            c = int((row[0] > 0) != (row[-1] > 0.5))
        elif layout == "stripes":
            c = int(int(np.floor(row[0] / 2.0)) % 2 == 0)
        else:
            c = draw(st.integers(0, 1))
        X.append(row)
        z.append(c)
    z[0], z[1] = 0, 1
    kind = draw(st.sampled_from(["int", "int", "float", "str", "words", "words-u"]))
    la, lb = draw(st.lists(st.integers(-5, 9) if not kind.startswith("words") else st.integers(0, 11), min_size=2, max_size=2, unique=True))
    opts = dict(max_depth=draw(st.integers(1, 5)), min_samples_split=draw(st.integers(2, 6)), min_samples_leaf=draw(st.integers(1, 4)),
                fit_improve_algo=draw(st.sampled_from(["auto", "auto", "none", "intercept_sort", "intercept_sort_always"])),
                p1p2=draw(st.sampled_from([0.09, 0.0, 0.2])), gamma=draw(st.sampled_from([1.0, 0.0, 5.0])))
    mq = draw(st.integers(1, 12))
    return dict(X=X, z=z, label_kind=kind, la=la, lb=lb, base=draw(st.sampled_from(["logreg", "logreg", "tree", "centroid", "skewed", "nested"])), opts=opts,
                Q=[[draw(_cell) for _ in range(d)] for _ in range(mq)])


CLAUSES = [
    Clause("tree", check, strategy=lambda tier: st.builds(lambda c, h, v: dict(c, via_copy=h, via_set_params=v), with_sk(with_np(_cases(tier))), st.sampled_from(COPIES), st.sampled_from([False, False, True])).flatmap(
               lambda c: st.sampled_from(["float64", "float64", "float64", "int64", "uint8", "float32"]).map(lambda xd: dict(c, xdtype=xd))), quick=4000, thorough=60000, quick_shards=16,
           doc="observable clauses + reference traversal of tree_"),
]
