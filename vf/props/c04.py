"""C04 - predictions are a pure per-row function of the model and survive persistence."""
from vf import loader
from vf.core import Clause, Outcome, Violation, require
from vf import registry as R

import pickle
import numpy as np
import pandas
from hypothesis import strategies as st

PROPERTY = "C04"
RULE = ("rows:<class>: for every fitted registry class with row-wise semantics Hypothesis draws a configuration, a training set, a query "
        "batch that contains training rows, duplicated rows, new rows and far-away rows (rows in discretizer cells / leaves / clusters "
        "unseen at training time), and index sets: a permutation, a sub-batch and every single row (batches of up to 32 rows). Oracle (metamorphic): for every public "
        "method, f(batch)[idx] == f(batch[idx]); f(batch) twice agree exactly, a batch edited in place and passed again as the same object is answered for its new content, and the array returned first keeps its values while the other batches go through the model; pickle.loads(pickle.dumps(model)) answers exactly the same; "
        "clone_with_fitted_parameters(model) either refuses in its documented way (RuntimeError for callable attributes) or answers exactly "
        "the same and leaves the original untouched. ConstraintKMeans(balanced_predictions=True) is the documented exception and is "
        "excluded. Non-trivial: a non-identity permutation or a sub-batch dropping rows, with >= 2 distinct output rows. Distinct by case JSON.")
ASSUMPTIONS = ["batch vs sub-batch comparisons carry 1e-9 relative for float outputs (BLAS results depend on batch size at 1e-16); label / index outputs are compared exactly",
               "a method that raises on the whole batch is labelled refused and skipped; raising on a sub-batch only (or the reverse) is a violation"]
TOLERANCES = {"sub-batch vs batch": "1e-9 relative (floats), exact (labels, indices)", "pickle / clone_with_fitted_parameters / repeated call": "exact"}

_testing = loader.module("mlmodel.sklearn_testing")


def _query(entry, data, X, y, extra):
    kind = data["kind"]
    if kind == "text":
        return list(X[:3]) + list(extra["docs"]) + list(X[:2])
    if kind == "frame":
        idx = [i % len(X) for i in extra["rows"]]
        return X.iloc[idx].reset_index(drop=True)
    if kind == "target":
        return np.array(list(y[:4]) + list(data.get("unseen", [])) + list(y[:2]), dtype=np.float64)
    d = X.shape[1]
    rows = [X[i % len(X)] for i in extra["rows"]]
    new = [np.array(r[:d] + [0.0] * (d - len(r[:d]))) for r in extra["new"]]
    far = [np.array(r[:d] + [0.0] * (d - len(r[:d]))) * 16.0 for r in extra["new"][:3]]
    Q = np.vstack(rows + new + far)
    if extra.get("extreme"):
        # one row of a wildly different magnitude sits in the batch (a sentinel, a unit mix-up): the OTHER rows are answered as without it
        ex = extra["extreme"]
        if isinstance(ex, str):
            # ... or a row far away in a drawn direction (a few hundred to tens of thousands of units): far enough for one local
            # model's exponentials to underflow, not necessarily for another's
            Q = np.vstack([Q, (new[0] if np.any(new[0]) else np.ones(d)) * float(ex[1:])])
        else:
            Q = np.vstack([Q, np.full((1, d), float(ex))])
    if extra.get("big_batch"):
        # a batch of 8193 .. 10001 rows (sizes that do not divide evenly into blocks of 4096): the drawn rows repeated, every repetition
        # shifted a little so that rows differ
        nbig = int(extra["big_batch"])
        reps = nbig // len(Q) + 1
        Q = np.vstack([Q + 0.001 * r for r in range(reps)])[:nbig]
    if kind == "nmf":
        Q = np.abs(Q)
    return np.ascontiguousarray(Q)


def _as_float(a):
    a = np.asarray(a)
    if a.dtype.kind in "fiub":
        return a.astype(np.float64), True
    return a, False


def _same(a, b, exact):
    a, b = np.asarray(a), np.asarray(b)
    if a.shape != b.shape:
        return "shapes %r vs %r" % (a.shape, b.shape)
    if a.dtype.kind in "OUS" or b.dtype.kind in "OUS":
        return None if a.tolist() == b.tolist() else "values differ"
    af, bf = a.astype(np.float64), b.astype(np.float64)
    if exact or a.dtype.kind in "iub":
        ok = np.array_equal(af, bf, equal_nan=True)
    else:
        with np.errstate(all="ignore"):
            ok = bool(np.all((af == bf) | (np.abs(af - bf) <= 1e-9 * (1 + np.abs(bf))) | (np.isnan(af) & np.isnan(bf))))
    if ok:
        return None
    with np.errstate(all="ignore"):
        return "max abs difference %.3g" % float(np.nanmax(np.abs(af - bf)))


def _scramble(obj, depth=0, seen=None):
    """multiplies every float array reachable from the fitted attributes of `obj` in place"""
    seen = set() if seen is None else seen
    if id(obj) in seen or depth > 4:
        return
    seen.add(id(obj))
    if isinstance(obj, np.ndarray):
        if obj.dtype.kind == "f" and obj.size and obj.flags.writeable:
            obj *= 1.5
            obj += 0.25
        return
    if isinstance(obj, (list, tuple)):
        for v in obj:
            _scramble(v, depth + 1, seen)
        return
    if isinstance(obj, dict):
        for v in obj.values():
            _scramble(v, depth + 1, seen)
        return
    if hasattr(obj, "__dict__") and not isinstance(obj, type):
        for k, v in list(vars(obj).items()):
            if k.endswith("_") or isinstance(v, (list, dict)) or hasattr(v, "get_params"):
                _scramble(v, depth + 1, seen)


def check_rows(case):
    name = case["cls"]
    entry = R.any_entry(name)
    facts = dict(cls=name)
    data = case["data"]
    X, y, w = R.materialize(data)
    est = R.build(case["spec"])
    np.random.seed(case["seed"])
    entry.fit(est, X, y, w)
    Q = _query(entry, data, X, y, case["extra"])
    dropped = False
    if isinstance(Q, np.ndarray) and Q.ndim == 2 and data["kind"] not in ("text", "frame", "target"):
        # a batch refused as a whole (a far row outside what some inner model accepts) says nothing: the statement is then examined on
        # the batch without its far rows (training rows and moderate new rows), which an inner model may still refuse in part
        k_mod = len(case["extra"]["rows"]) + len(case["extra"]["new"])
        if len(Q) > k_mod:
            import contextlib as _cl
            with (np.errstate(all="raise") if case.get("errstate") else _cl.nullcontext()):
                for meth_ in entry.available(est):
                    try:
                        entry.call(est, meth_, Q)
                    except Exception:  # noqa: BLE001
                        Q = np.ascontiguousarray(Q[:k_mod])
                        dropped = True
                        break
    m = R.nrows(Q)
    perm = [i % m for i in case["perm"]][:m]
    perm = list(dict.fromkeys(perm))
    perm = perm + [i for i in range(m) if i not in set(perm)]       # a permutation of range(m)
    sub = sorted(set(i % m for i in case["sub"]))
    # every row also travels alone when the batch is small (a row sitting exactly on a decision border behaves differently only when alone)
    singles = list(range(m)) if (m <= 32 and case.get("all_singles", True)) else sorted(set(i % m for i in case["singles"]))
    labels = [name, "errstate:raise" if case.get("errstate") else "errstate:default", "far-rows-dropped-after-refusal" if dropped else "whole-batch-kept"]
    nontrivial = False
    # a copy pickled straight after fit, BEFORE any prediction was asked of the model (lazily built helpers do not exist yet)
    try:
        early = pickle.loads(pickle.dumps(est))
    except Exception as e:  # noqa: BLE001
        raise Violation("pickle:raises", "%s: %s" % (type(e).__name__, str(e)[:200]), facts)
    methods = entry.available(est)
    # the order in which the public methods are called is part of the case (predict_proba before predict, transform before predict, ...)
    rot = (case["perm"][0] if case["perm"] else 0) % max(1, len(methods))
    methods = methods[rot:] + methods[:rot]
    # the caller may run with numpy.errstate(all="raise") (a debugging habit, some test suites): a FloatingPointError then raised by a
    # call is a refusal of that call (the rest of the case is skipped); an ANSWER given under it is judged like any other
    import contextlib
    try:
        with (np.errstate(all="raise") if case.get("errstate") else contextlib.nullcontext()):
            for meth in methods:
                np.random.seed(1)
                try:
                    full = entry.call(est, meth, Q)
                except Exception as e:  # noqa: BLE001 - the whole batch is refused: outside this statement
                    from vf.core import repo_frame
                    labels.append("refused:%s" % meth)
                    continue
                f2 = dict(facts, method=meth)
                if name == "PermutationReciprocalTransformer" and not est.closest:
                    # without closest=True unseen labels are filtered by the entry: indices refer to the filtered vector
                    Qm = np.array([z for z in np.asarray(Q).tolist() if z in est.permutation_], dtype=np.float64)
                else:
                    Qm = Q
                mm = R.nrows(Qm)
                kept = np.array(full, copy=True)        # the caller still holds `full` while other batches go through the same model
                again = entry.call(est, meth, Q)
                d = _same(full, again, True)
                require(d is None, "repeat:differs", "%s called twice on the same batch: %s" % (meth, d), f2)
                require(len(full) == mm, "rows:length", "%s returned %d rows for %d" % (meth, len(full), mm), f2)
                long_batch = (("reversed", list(range(mm - 1, -1, -1))), ("tail", list(range(mm - 5, mm))), ("single", [mm - 1])) if mm > 64 else ()
                for kind, idx in (("permutation", [i for i in perm if i < mm]), ("sub-batch", [i for i in sub if i < mm])) + tuple(("single", [i]) for i in singles if i < mm) + long_batch:
                    if not idx:
                        continue
                    part = entry.call(est, meth, R.subset(Qm, idx))
                    d = _same(np.asarray(full)[idx], part, False)
                    require(d is None, "rows:%s:%s" % (kind, meth), "%s(batch)[idx] != %s(batch[idx]) for idx=%r: %s" % (meth, meth, idx[:8], d), dict(f2, index_kind=kind))
                if isinstance(Qm, np.ndarray) and Qm.ndim == 2 and mm >= 2:
                    # the caller edits its batch in place between two calls and passes the SAME array object again (what permutation importance
                    # does): the answer follows the content, not the identity of the object
                    pidx = [i for i in perm if i < mm]
                    Qw = Qm.copy()
                    entry.call(est, meth, Qw)
                    Qw[:] = Qm[pidx]
                    second = entry.call(est, meth, Qw)
                    d = _same(np.asarray(full)[pidx], second, False)
                    require(d is None, "repeat:same-object-edited-in-place:" + meth, "%s on an array edited in place after a first call: %s" % (meth, d), f2)
                if isinstance(Qm, np.ndarray) and Qm.ndim == 2 and Qm.dtype == np.float64 and mm >= 1:
                    # the same rows in other containers a caller may hold them in: nested lists, a read-only array (a memory-mapped file, a
                    # pandas block), Fortran order, a non-native byte order (data read from a big-endian file).  A class may refuse a
                    # container; if it answers, it answers what it answers for the plain array
                    ro = Qm.copy()
                    ro.flags.writeable = False
                    for cname, Qc in (("nested-lists", Qm.tolist()), ("read-only", ro), ("fortran-order", np.asfortranarray(Qm.copy())), ("big-endian", Qm.astype(">f8"))):
                        try:
                            outc = entry.call(est, meth, Qc)
                        except Exception:  # noqa: BLE001 - refusing a container is outside the statement
                            labels.append("container-refused:" + cname)
                            continue
                        d = _same(full, outc, False)
                        require(d is None, "rows:container:%s:%s" % (cname, meth), "%s on the same rows held as %s: %s" % (meth, cname, d), dict(f2, container=cname))
                    # a batch of zero rows: refused, or answered with zero rows (never with something invented)
                    try:
                        out0 = entry.call(est, meth, Qm[:0])
                    except Exception:  # noqa: BLE001
                        out0 = None
                        labels.append("zero-row-batch-refused")
                    if out0 is not None:
                        require(len(np.asarray(out0)) == 0, "rows:zero-row-batch:" + meth, "%s on a batch of 0 rows returned %d rows" % (meth, len(np.asarray(out0))), f2)
                        labels.append("zero-row-batch-answered")
                if name in ("PiecewiseRegressor", "PiecewiseClassifier") and meth == methods[0] and case.get("process_backend"):
                    # the caller has a process-based joblib backend active (prefer="threads" is only a hint, a backend context overrides it):
                    # same answers as without it
                    import joblib
                    with joblib.parallel_backend("multiprocessing", n_jobs=2):
                        inside = entry.call(est, meth, Q)
                    d = _same(full, inside, True)
                    require(d is None, "backend:process-based:" + meth, "%s under joblib.parallel_backend('multiprocessing') differs from the plain call: %s" % (meth, d), f2)
                    labels.append("process-backend")
                d = _same(full, kept, True)
                require(d is None, "repeat:earlier-result-overwritten", "the array %s returned for the batch changed while other batches were sent through the same model: %s" % (meth, d), f2)
                if len(np.unique(np.asarray(full).reshape(len(full), -1).astype(str), axis=0)) >= 2 and (perm != list(range(m)) or len(sub) < m):
                    nontrivial = True
                # persistence
                try:
                    blob = pickle.dumps(est)
                    est2 = pickle.loads(blob)
                except Exception as e:  # noqa: BLE001 - a fitted model that cannot make the round trip breaks the statement
                    raise Violation("pickle:raises:%s" % type(e).__name__, "%s: %s" % (type(e).__name__, str(e)[:300]), f2)
                d = _same(full, entry.call(est2, meth, Q), True)
                require(d is None, "pickle:differs:" + meth, "unpickled model answers differently: %s" % d, f2)
                d = _same(full, entry.call(early, meth, Q), True)
                require(d is None, "pickle:differs:before-first-call:" + meth, "a copy pickled right after fit, before any prediction, answers differently: %s" % d, f2)
                try:
                    est3 = _testing.clone_with_fitted_parameters(est)
                except RuntimeError as e:
                    if "Cannot migrate" in str(e) or "missing" in str(e):
                        labels.append("clone_fitted:refused")
                        est3 = None
                    else:
                        raise
                if est3 is not None:
                    d = _same(full, entry.call(est3, meth, Q), True)
                    require(d is None, "clone_with_fitted_parameters:differs:" + meth, "the copy answers differently: %s" % d, f2)
                    d = _same(full, entry.call(est, meth, Q), True)
                    require(d is None, "clone_with_fitted_parameters:original-changed:" + meth, "%s" % d, f2)
                    labels.append("clone_fitted:ok")
                    if meth == methods[-1]:
                        # updating the copy's fitted arrays in place must not reach the original (no shared mutable state)
                        _scramble(est3)
                        d = _same(full, entry.call(est, meth, Q), True)
                        require(d is None, "clone_with_fitted_parameters:shares-state:" + meth, "changing the copy's fitted arrays changed the original's answers: %s" % d, f2)
    except FloatingPointError:
        if not case.get("errstate"):
            raise
        labels.append("floating-point-error-raised-under-errstate")
    return Outcome(sorted(set(labels)), nontrivial)


@st.composite
def _cases(draw, name, tier="quick"):
    entry = R.any_entry(name)
    spec = R.spec_for(name, draw, draw(st.integers(0, 11))) if name in R.ENTRIES else (draw(st.integers(0, 11)), entry.spec(draw))[1]
    if name == "ConstraintKMeans":
        spec["params"]["balanced_predictions"] = False       # the documented exception of the statement
    data = entry.data(draw)
    cell = st.integers(-32, 32).map(lambda v: v / 4.0)
    extra = dict(rows=[draw(st.integers(0, 40)) for _ in range(draw(st.integers(2, 6)))],
                 new=[[draw(cell) for _ in range(4)] for _ in range(draw(st.integers(3, 6)))],
                 docs=[" ".join(draw(st.lists(st.sampled_from(R.WORDS + ["zebra", "x"]), min_size=0, max_size=5))) for _ in range(3)],
                 extreme=draw(st.sampled_from([None, None, None, 1e17, -1e17, 1e12, "x200", "x2000", "x-2000", "x20000"])),
                 big_batch=draw(st.sampled_from([8193, 10001, 12290])) if draw(st.integers(0, 3 if name == "PiecewiseTreeRegressor" else 15)) == 0 else 0)
    k = 16
    return dict(cls=name, spec=spec, data=data, extra=extra, seed=draw(st.integers(0, 2**31 - 10)),
                perm=[draw(st.integers(0, 40)) for _ in range(k)], sub=[draw(st.integers(0, 40)) for _ in range(draw(st.integers(1, 6)))],
                singles=[draw(st.integers(0, 40)) for _ in range(2)], process_backend=draw(st.integers(0, 3)) == 0, errstate=draw(st.integers(0, 2 if name == "PiecewiseClassifier" else 5)) == 0)


def _clause(name):
    heavy = name in ("ConstraintKMeans", "ApproximateNMFPredictor", "DecisionTreeLogisticRegression", "ClassifierAfterKMeans", "PiecewiseClassifier", "PiecewiseRegressor")
    # the tree of logistic regressions has data-dependent borders (a row exactly on a node threshold): it gets many more cases
    border = name == "DecisionTreeLogisticRegression"
    return Clause("rows:" + name, check_rows, strategy=lambda tier, n=name: _cases(n, tier), quick=640 if border else (160 if name == "PiecewiseClassifier" else (60 if heavy else 100)),
                  thorough=6000 if border else (800 if heavy else 1500), quick_shards=8 if border else 1, thorough_shards=8 if border else 2, doc="batch vs sub-batches / permutations / single rows, repeat, pickle, clone_with_fitted_parameters on %s" % name)


CLAUSES = [_clause(n) for n in sorted(R.ENTRIES)] + [_clause("TransferTransformer:frozen")]
