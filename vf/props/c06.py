"""C06 - KMeansL1L2: L1 self-consistent in Manhattan geometry, L2 exactly KMeans."""
from vf import loader
from vf.core import Clause, Outcome, Violation, require, np_scalars, with_np, with_sk

import numpy as np
from hypothesis import strategies as st
from sklearn.cluster import KMeans

PROPERTY = "C06"
RULE = ("Hypothesis draws a pool of p>=k distinct dyadic points, then the data set = the pool plus extra rows that repeat pool rows "
        "or are new (so n==k, heavy duplication, ties and one-cluster cases occur), d 1..3, float64 or float32, k 1..6, init in "
        "{k-means++, random, explicit array (possibly with duplicated or far-away centres, which empties clusters)}, n_init 1..3, "
        "max_iter 1..20, random_state int|None under a generated global seed, sample_weight None or all ones, and a query batch. "
        "L1 oracle = validity predicates from the statement (any Manhattan-nearest centre accepted); L2 oracle = "
        "sklearn.cluster.KMeans with the same parameters and seed (exact equality of every fitted attribute, predict, transform). "
        "Non-trivial: L1 with duplicates / n==k / an explicit init / a tie between two centres for some training point; L2 with k>=2. "
        "One case in three passes its scalar hyper-parameters as NumPy scalars (numpy.bool_, numpy.int64, numpy.float64). Distinct = distinct case JSON.")
ASSUMPTIONS = ["sample weights None or all ones (non-uniform weights are a documented NotImplementedError; the statement does not say "
               "how a uniform weight c != 1 scales inertia_)", "dense data only"]
TOLERANCES = {"L1 float64": "exact (dyadic data: |differences|, medians and their sums are exact)", "L1 float32": "1e-5 relative",
              "L2": "exact (same code path, same seed, one thread; algorithm lloyd|elkan, arbitrary positive weights)"}

_mod = loader.module("mlmodel.kmeans_l1")


def _build(case):
    dt = np.float32 if case["dtype"] == "float32" else np.float64
    off = float(case.get("offset", 0.0))
    X = (np.array(case["X"], dtype=np.float64) + off).astype(dt)
    init = case["init"]
    if isinstance(init, list):
        init = (np.array(init, dtype=np.float64) + off).astype(dt)
    kw = dict(n_clusters=case["k"], init=init, n_init=case["n_init"], max_iter=case["max_iter"], random_state=case["random_state"],
              tol=case["tol"])
    w = None if not case["ones_weight"] else np.ones(len(X))
    Q = (np.array(case["Q"], dtype=np.float64).reshape(-1, X.shape[1]) + off).astype(dt)
    return X, kw, w, Q


def _manh(A, B):
    return np.abs(A[:, None, :].astype(np.float64) - B[None, :, :].astype(np.float64)).sum(axis=2)


def check_l1(case):
    X, kw, w, Q = _build(case)
    n, d = X.shape
    k = case["k"]
    f32 = case["dtype"] == "float32"
    facts = dict(k=k, n=n, d=d, init=case["init"] if isinstance(case["init"], str) else "array", dtype=case["dtype"],
                 n_distinct=int(len(np.unique(X, axis=0))))
    X0 = X.copy()
    np.random.seed(case["seed"])
    m = _mod.KMeansL1L2(norm="L1", **np_scalars(kw, case.get("np_params", False)))
    r = m.fit(X, sample_weight=w)
    require(r is m, "fit:not-self", "", facts)
    require(np.array_equal(X, X0), "input-modified", "", facts)
    C = np.asarray(m.cluster_centers_)
    L = np.asarray(m.labels_)
    require(C.shape == (k, d), "centers:shape", "%r" % (C.shape,), facts)
    require(bool(np.all(np.isfinite(C))), "centers:not-finite", "%r" % C.tolist(), facts)
    require(L.shape == (n,) and np.issubdtype(L.dtype, np.integer) and L.min() >= 0 and L.max() < k, "labels:range", "%r" % L.tolist(), facts)
    D = _manh(X, C)
    scale = 1.0 + D.max()
    tol = (1e-5 * scale) if f32 else 0.0
    chosen = D[np.arange(n), L]
    bad = np.nonzero(chosen > D.min(axis=1) + tol)[0]
    if len(bad):
        i = int(bad[0])
        raise Violation("l1:label-not-nearest", "point %r labelled %d at distance %r, nearest centre %d at %r; centres %r" % (
            X[i].tolist(), int(L[i]), float(chosen[i]), int(D[i].argmin()), float(D[i].min()), C.tolist()), facts)
    s = float(chosen.sum())
    itol = (1e-5 * (1.0 + abs(s))) if f32 else 1e-12 * (1.0 + abs(s))
    require(abs(float(m.inertia_) - s) <= itol, "l1:inertia", "inertia_=%r, sum of distances to the labelled centres=%r" % (float(m.inertia_), s), facts)
    lo, hi = X.min(axis=0).astype(np.float64), X.max(axis=0).astype(np.float64)
    require(bool(np.all(C >= lo - tol)) and bool(np.all(C <= hi + tol)), "l1:centre-outside-data-range",
            "centres %r, data range %r..%r" % (C.tolist(), lo.tolist(), hi.tolist()), facts)
    require(1 <= int(m.n_iter_) <= case["max_iter"], "n_iter", "%r" % m.n_iter_, facts)
    # predict / transform on arbitrary rows and on the training rows
    for name, Z in (("query", Q), ("train", X)):
        if len(Z) == 0:
            continue
        P = np.asarray(m.predict(Z))
        DZ = _manh(Z, C)
        require(P.shape == (len(Z),) and P.min() >= 0 and P.max() < k, "l1:predict-range", "", facts)
        ch = DZ[np.arange(len(Z)), P]
        require(bool(np.all(ch <= DZ.min(axis=1) + tol)), "l1:predict-not-nearest", name, facts)
        T = np.asarray(m.transform(Z))
        require(T.shape == DZ.shape and bool(np.all(np.abs(T - DZ) <= (1e-5 * scale if f32 else 0.0))), "l1:transform", name, facts)
    # the same model trained through fit_transform / fit_predict (what a Pipeline calls for an inner step): Manhattan distances to its own
    # centres, nearest-centre labels
    m2 = _mod.KMeansL1L2(norm="L1", **np_scalars(kw, case.get("np_params", False)))
    np.random.seed(case["seed"])
    T2 = np.asarray(m2.fit_transform(X, sample_weight=w))
    D2 = _manh(X, np.asarray(m2.cluster_centers_))
    require(T2.shape == D2.shape and bool(np.all(np.abs(T2 - D2) <= (1e-5 * (1.0 + D2.max()) if f32 else 0.0))), "l1:fit_transform",
            "fit_transform(X) is not the matrix of Manhattan distances to the fitted centres: first row %r, Manhattan %r" % (T2[0].tolist(), D2[0].tolist()), facts)
    require(np.array_equal(np.asarray(m2.cluster_centers_), C), "l1:fit_transform:other-model", "fit_transform under the same seed fitted other centres than fit", facts)
    m3 = _mod.KMeansL1L2(norm="L1", **np_scalars(kw, case.get("np_params", False)))
    np.random.seed(case["seed"])
    P3 = np.asarray(m3.fit_predict(X, sample_weight=w))
    require(np.array_equal(P3, L), "l1:fit_predict", "fit_predict(X) differs from labels_ of fit(X) under the same seed", facts)
    tie = bool(np.any(np.ptp(np.sort(D, axis=1)[:, :2], axis=1) == 0)) if k >= 2 else False
    dup = facts["n_distinct"] < n
    labels = ["L1", case["dtype"], "offset=%g" % float(case.get("offset", 0.0)), "init=" + facts["init"], "dup" if dup else "nodup", "tie" if tie else "notie",
              "n==k" if n == k else "n>k", "k=1" if k == 1 else ("k>=2" if k < 30 else "k>=30"), "used-clusters<k" if len(set(L.tolist())) < k else "all-clusters-used"]
    return Outcome(labels, dup or n == k or facts["init"] == "array" or tie)


def check_l2(case):
    X, kw, w, Q = _build(case)
    k = case["k"]
    kw["algorithm"] = case.get("algorithm", "lloyd")
    if case.get("n_init_auto"):
        kw["n_init"] = "auto"
    if case.get("l2_weights") is not None:
        w = np.array(case["l2_weights"][:len(X)], dtype=np.float64)
    facts = dict(k=k, n=len(X), init=case["init"] if isinstance(case["init"], str) else "array", dtype=case["dtype"])
    np.random.seed(case["seed"])
    # the model may be trained through fit, fit_transform or fit_predict (what a Pipeline calls for a step that is not the last one)
    via = case.get("train_via", "fit")
    facts["train_via"] = via
    if case.get("l1_first"):
        # the instance was first used with the other norm (a grid over `norm` on one object), then reconfigured: the L2 model that follows
        # is scikit-learn's, in its centres AND in what predict / transform answer
        m = _mod.KMeansL1L2(norm="L1", **np_scalars(dict(kw, algorithm="lloyd"), case.get("np_params", False)))       # L1 documents lloyd only
        try:
            np.random.seed(case["seed"])
            m.fit(X)
        except Exception:  # noqa: BLE001 - the L1 fit's own business (C06 l1 clause)
            pass
        m.set_params(norm="L2", algorithm=kw["algorithm"])
    else:
        m = _mod.KMeansL1L2(norm="L2", **np_scalars(kw, case.get("np_params", False)))
    facts["l1_first"] = bool(case.get("l1_first"))
    ref = KMeans(**kw)
    np.random.seed(case["seed"])
    out_m = getattr(m, via)(X, sample_weight=w)
    np.random.seed(case["seed"])
    out_r = getattr(ref, via)(X, sample_weight=w)
    if via != "fit":
        require(np.array_equal(np.asarray(out_m), np.asarray(out_r)), "l2:" + via, "%s(X, sample_weight) differs from KMeans'" % via, facts)
    for a in ("cluster_centers_", "labels_", "inertia_", "n_iter_"):
        require(np.array_equal(np.asarray(getattr(m, a)), np.asarray(getattr(ref, a))), "l2:" + a,
                "%r vs KMeans %r" % (np.asarray(getattr(m, a)).tolist(), np.asarray(getattr(ref, a)).tolist()), facts)
    for name, Z in (("query", Q), ("train", X)):
        if len(Z) == 0:
            continue
        require(np.array_equal(m.predict(Z), ref.predict(Z)), "l2:predict", name, facts)
        require(np.array_equal(m.transform(Z), ref.transform(Z)), "l2:transform", name, facts)
    sref = ref.score(Q if len(Q) else X)
    require(m.score(Q if len(Q) else X) == sref, "l2:score", "", facts)
    return Outcome(["L2", case["dtype"], "init=" + facts["init"], "k=1" if k == 1 else "k>=2", "algorithm=" + kw["algorithm"],
                    "weights" if case.get("l2_weights") is not None else "no-weights", "via:" + via, "after-an-L1-fit" if case.get("l1_first") else "fresh-instance"], k >= 2)


_cell = st.integers(-64, 64).map(lambda v: v / 8.0)


@st.composite
def _cases(draw, tier="quick"):
    d = draw(st.integers(1, 3))
    k = draw(st.integers(1, 6))
    if draw(st.integers(0, 7)) == 0:
        # many centres in few dimensions (30-40 clusters, as many distinct points at least)
        k, d = draw(st.integers(30, 40)), max(d, 2)
    row = st.lists(_cell, min_size=d, max_size=d).map(tuple)
    pool = draw(st.lists(row, min_size=k, max_size=k + draw(st.integers(0, 8)), unique=True))
    nextra = draw(st.integers(0, 16 if tier == "quick" else 40))
    extra = [draw(st.one_of(st.sampled_from(pool), st.sampled_from(pool), row)) for _ in range(nextra)]
    X = [list(r) for r in draw(st.permutations(pool + extra))]
    init = draw(st.sampled_from(["k-means++", "random", "array", "array"]))
    if init == "array":
        kind = draw(st.sampled_from(["any", "dups", "far", "data"]))
        if kind == "any":
            init = [list(draw(row)) for _ in range(k)]
        elif kind == "dups":
            c = list(draw(row))
            init = [list(c) if draw(st.booleans()) else list(draw(row)) for _ in range(k)]
        elif kind == "far":
            init = [list(draw(row)) for _ in range(k)]
            init[-1] = [100.0 + j for j in range(d)]
        else:
            init = [list(draw(st.sampled_from(pool))) for _ in range(k)]
    mq = draw(st.integers(0, 8))
    Q = [draw(st.lists(st.integers(-80, 80).map(lambda v: v / 8.0), min_size=d, max_size=d)) for _ in range(mq)]
    return dict(X=X, k=k, init=init, n_init=draw(st.integers(1, 3)), max_iter=draw(st.integers(1, 20)),
                random_state=draw(st.one_of(st.none(), st.integers(0, 1000))), seed=draw(st.integers(0, 2**31 - 2)),
                tol=draw(st.sampled_from([1e-4, 0.0, 1e-2])), dtype=draw(st.sampled_from(["float64", "float64", "float32"])),
                ones_weight=draw(st.booleans()), Q=Q, n_init_auto=draw(st.integers(0, 4)) == 0, offset=draw(st.sampled_from([0.0, 0.0, 0.0, 1024.0, 1048576.0])), algorithm=draw(st.sampled_from(["lloyd", "lloyd", "elkan"])),
                train_via=draw(st.sampled_from(["fit", "fit", "fit_transform", "fit_predict"])),
                l2_weights=draw(st.one_of(st.none(), st.lists(st.integers(1, 16).map(lambda v: v / 4.0), min_size=len(X), max_size=len(X)))))


CLAUSES = [
    Clause("l1", check_l1, strategy=lambda tier: with_sk(with_np(_cases(tier))), quick=2400, thorough=40000, quick_shards=12,
           doc="norm='L1': nearest-centre labels, inertia, centres within the data range, predict, transform"),
    Clause("l2", check_l2, strategy=lambda tier: st.builds(lambda c, f: dict(c, l1_first=f), with_sk(with_np(_cases(tier))), st.sampled_from([False, False, True])), quick=600, thorough=10000, quick_shards=4,
           doc="norm='L2' == sklearn KMeans, exactly"),
]
