"""C19 - CategoriesToIntegers encodes each category by its own indicator and nothing else."""
from vf import loader
from vf.core import Clause, Outcome, Violation, require, np_scalars, with_np

import numpy as np
import pandas
from hypothesis import strategies as st

PROPERTY = "C19"
RULE = ("Hypothesis draws a training frame and a test frame together: 1-3 categorical columns (object dtype; pandas-3 'str' dtype "
        "only with explicit columns=), 0-2 numeric columns, string categories from a small alphabet, missing values (None/NaN), a "
        "generated unique non-default index, unseen categories planted at generated (row, column) positions incl. first and last "
        "cell, options columns/single/skip_errors/remove. Oracle: reference encoder written from the statement (cell==1 iff the "
        "row's value is that category; fillers NaN or 0 both accepted), must-raise for unseen without skip_errors, and the "
        "metamorphic 'an unseen value behaves exactly like a missing one' relation for skip_errors=True. Non-trivial: the test frame "
        "holds an unseen or missing value, or >= 2 categorical columns. One case in three passes its scalar hyper-parameters as NumPy scalars (numpy.bool_, numpy.int64, numpy.float64). Distinct = distinct case JSON.")
ASSUMPTIONS = ["categorical columns hold strings (categories are sorted by the transformer)",
               "filler for 'no indicator' may be NaN or 0: the statement does not fix it",
               "a value listed in remove= and met with skip_errors=False may either raise or give no indicator (not specified)",
               "remove= is not combined with single=True (the rank among 'sorted training categories' is then ambiguous)"]
TOLERANCES = {"all": "exact"}

_mod = loader.module("mlmodel.categories_to_integers")
CRASH_TYPES = (NameError, UnboundLocalError, IndexError, AttributeError, TypeError, AssertionError)


def _frame(data, cols, index, cat_cols, dtype):
    d = {}
    for c in cols:
        vals = data[c]
        if c in cat_cols:
            if dtype == "category":
                # a pandas Categorical that DECLARES a category no row holds (what a filtered or split frame keeps): not a seen category
                clean = [None if (v is None or v == "__nan__") else v for v in vals]
                d[c] = pandas.Series(pandas.Categorical(clean, categories=sorted(set(v for v in clean if v is not None) | {"zz-declared-only"})), index=index)
            elif dtype == "str":
                d[c] = pandas.Series([np.nan if v is None else v for v in vals], index=index, dtype="str")
            else:
                arr = np.empty(len(vals), dtype=object)
                for i, v in enumerate(vals):
                    arr[i] = np.nan if v == "__nan__" else v
                d[c] = pandas.Series(arr, index=index, dtype=object)
        elif all(isinstance(v, int) for v in vals):
            d[c] = pandas.Series(np.array(vals, dtype=np.int64), index=index)       # integer pass-through column (64-bit ids, timestamps in ns)
        else:
            d[c] = pandas.Series(np.array(vals, dtype=np.float64), index=index)
    return pandas.DataFrame(d, columns=cols, index=index)


def _is_missing(v):
    return v is None or v == "__nan__" or (isinstance(v, float) and np.isnan(v))


def _same(a, b):
    a = np.asarray(a, dtype=np.float64)
    b = np.asarray(b, dtype=np.float64)
    return a.shape == b.shape and bool(np.all((a == b) | (np.isnan(a) & np.isnan(b))))


def _check_transform(tr, case, data, index, fit_cols, cats, facts, expect_unseen):
    """data: dict col -> list; returns set of labels"""
    o = case["options"]
    cols = case["cols"]
    df = _frame(data, cols, index, case["cat_cols"], case["dtype"])
    df0 = df.copy(deep=True)
    removed = set(o["remove"] or [])
    unseen_cells = [(i, c) for c in fit_cols for i, v in enumerate(data[c])
                    if not _is_missing(v) and (v not in cats[c] or ("%s=%s" % (c, v)) in removed)]
    truly_unseen = [(i, c) for (i, c) in unseen_cells if data[c][i] not in cats[c]]
    facts = dict(facts, n_unseen=len(unseen_cells), first_cell_unseen=(0, fit_cols[0]) in unseen_cells if fit_cols else False)
    if unseen_cells and not o["skip_errors"]:
        try:
            tr.transform(df)
        except CRASH_TYPES:
            raise
        except Exception:  # the documented refusal
            return {"refused-unseen"}
        if truly_unseen:
            raise Violation("unseen:not-refused", "unseen category %r accepted without skip_errors" % (truly_unseen[:3],), facts)
        return {"removed-value-accepted"}
    out = tr.transform(df)
    require(df.equals(df0), "input-modified", "transform changed its input frame", facts)
    require(isinstance(out, pandas.DataFrame), "output:not-a-frame", str(type(out)), facts)
    require(list(out.index) == list(index), "index:changed", "%r -> %r" % (list(index), list(out.index)), facts)
    other = [c for c in cols if c not in fit_cols]
    if o["single"]:
        require(sorted(map(str, out.columns)) == sorted(cols), "columns:set", "%r" % (list(out.columns),), facts)
        for c in other:
            require(out[c].equals(df0[c]), "passthrough:changed", "column %r" % c, facts)
        for c in fit_cols:
            rank = {v: i for i, v in enumerate(sorted(cats[c]))}
            for i, v in enumerate(data[c]):
                got = out[c].iloc[i]
                if _is_missing(v) or v not in rank:
                    require(got is None or (isinstance(got, (float, np.floating)) and np.isnan(got)), "single:missing-not-nan",
                            "row %d column %r value %r encoded as %r" % (i, c, v, got), facts)
                else:
                    require(got == rank[v], "single:wrong-rank", "row %d column %r value %r -> %r, rank is %d" % (i, c, v, got, rank[v]), facts)
    else:
        expected_cols = set(other)
        ind_cols = {}
        for c in fit_cols:
            for v in cats[c]:
                name = "%s=%s" % (c, v)
                if name in removed:
                    continue
                ind_cols[(c, v)] = name
                expected_cols.add(name)
        require(set(map(str, out.columns)) == expected_cols and len(out.columns) == len(expected_cols), "columns:set",
                "got %r expected %r" % (sorted(map(str, out.columns)), sorted(expected_cols)), facts)
        for c in other:
            if c in case["cat_cols"]:
                require(list(out[c].astype(object).where(out[c].notna(), None)) == list(df0[c].astype(object).where(df0[c].notna(), None)),
                        "passthrough:changed", "column %r" % c, facts)
            elif df0[c].dtype.kind in "iu":
                # integers are compared as integers (a detour through float64 rounds anything beyond 2**53)
                require(out[c].dtype.kind in "iu" and np.array_equal(out[c].values.astype(np.int64), df0[c].values.astype(np.int64)), "passthrough:changed",
                        "integer column %r: %r -> %r (dtype %s)" % (c, df0[c].values[:3].tolist(), out[c].values[:3].tolist(), out[c].dtype), facts)
            else:
                require(_same(out[c].values, df0[c].values), "passthrough:changed", "column %r" % c, facts)
        for (c, v), name in ind_cols.items():
            col = np.asarray(out[name].values, dtype=np.float64)
            for i, rv in enumerate(data[c]):
                want = (not _is_missing(rv)) and rv == v
                if want:
                    require(col[i] == 1.0, "indicator:missing", "row %d: value %r=%r but cell %r is %r" % (i, c, rv, name, col[i]), facts)
                else:
                    require(not (col[i] == 1.0), "indicator:spurious",
                            "row %d: value of %r is %r but cell %r is 1" % (i, c, rv, name), facts)
    labels = set()
    if unseen_cells:
        # metamorphic: same frame with unseen values replaced by missing ones
        data2 = {c: list(v) for c, v in data.items()}
        for (i, c) in unseen_cells:
            data2[c][i] = None
        df2 = _frame(data2, cols, index, case["cat_cols"], case["dtype"])
        out2 = tr.transform(df2)
        require(list(map(str, out.columns)) == list(map(str, out2.columns)), "unseen:columns-differ", "", facts)
        for name in out.columns:
            if name in fit_cols:      # single mode: the cell itself
                a, b = out[name], out2[name]
                ok = _same(np.asarray(a, dtype=np.float64), np.asarray(b, dtype=np.float64))
            elif name in case["cat_cols"]:
                continue
            else:
                ok = _same(out[name].values, out2[name].values)
            require(ok, "unseen:affects-other-cells", "column %r differs from the frame where the unseen values are missing" % str(name), facts)
        labels.add("unseen-skipped")
    return labels


def _tiled(case):
    """a long query frame (more than 1024 rows): the drawn test rows repeated, each repetition rotated by one more row so that the rows
    1024 positions apart differ; the index becomes 0..N-1"""
    reps = case["tile"]
    nte = len(case["test_index"])
    test = {}
    for c, vals in case["test"].items():
        out = []
        for r in range(reps):
            k = r % nte
            out.extend(vals[k:] + vals[:k])
        test[c] = out
    return dict(case, test=test, test_index=list(range(nte * reps)))


def check(case):
    if case.get("tile"):
        case = _tiled(case)
    o = case["options"]
    cols = case["cols"]
    cat_cols = case["cat_cols"]
    if o["columns"] == "auto":
        columns, fit_cols = None, list(cat_cols)
    elif isinstance(o["columns"], str):
        columns, fit_cols = o["columns"], [o["columns"]]      # a single column name (documented: wrapped into a list)
    else:
        fit_cols = [c for c in cat_cols if c in o["columns"]]
        columns = list(fit_cols)
    facts = dict(single=o["single"], skip_errors=o["skip_errors"], columns=o["columns"] == "auto" and "auto" or ("string" if isinstance(o["columns"], str) else "explicit"),
                 remove=bool(o["remove"]), dtype=case["dtype"])
    tr = _mod.CategoriesToIntegers(columns=columns, remove=o["remove"], **np_scalars(dict(skip_errors=o["skip_errors"], single=o["single"]), case.get("np_params", False)))
    train = _frame(case["train"], cols, case["train_index"], cat_cols, case["dtype"])
    if case.get("fitted_before"):
        # the same instance was fitted before on a frame holding MORE categories (last month's data): what it learnt there is gone
        extra = case["fitted_before"]
        def _more(c, v):
            if c not in cat_cols:
                return [v[0], v[-1]]
            if any(isinstance(u, (int, float)) and not isinstance(u, bool) and not _is_missing(u) for u in v):
                return [555, -77]                     # a column of numeric categories gets numeric extras (a fit sorts its categories)
            return [extra[i % len(extra)] for i in range(2)]
        sup = {c: list(v) + _more(c, v) for c, v in case["train"].items()}
        n_sup = len(case["train_index"]) + 2
        tr.fit(_frame(sup, cols, list(range(n_sup)), cat_cols, case["dtype"]))
    r = tr.fit(train)
    require(r is tr, "fit:not-self", "", facts)
    cats = {c: sorted(set(v for v in case["train"][c] if not _is_missing(v))) for c in fit_cols}
    labels = set()
    labels |= _check_transform(tr, case, case["train"], case["train_index"], fit_cols, cats, facts, False)
    labels |= _check_transform(tr, case, case["test"], case["test_index"], fit_cols, cats, facts, True)
    # scikit-learn asked for pandas containers (set_config / a pipeline's set_output): the training frame is transformed to the same
    # named columns with the same values as under the default configuration
    import sklearn
    try:
        plain = tr.transform(train)
    except Exception:  # noqa: BLE001 - refusals (a removed category met with skip_errors=False) are judged by _check_transform above
        plain = None
    wrapped = None
    if plain is not None:
        with sklearn.config_context(transform_output="pandas"):
            wrapped = tr.transform(_frame(case["train"], cols, case["train_index"], cat_cols, case["dtype"]))
    if plain is not None:
        # the training frame encoded through fit_transform (the entry point a Pipeline / ColumnTransformer uses for its inner steps): the
        # same cells as fit followed by transform
        tr_ft = _mod.CategoriesToIntegers(columns=columns, remove=o["remove"], skip_errors=o["skip_errors"], single=o["single"])
        via_ft = tr_ft.fit_transform(_frame(case["train"], cols, case["train_index"], cat_cols, case["dtype"]))
        require(list(map(str, via_ft.columns)) == list(map(str, plain.columns)) and list(via_ft.index) == list(plain.index), "fit_transform:labels",
                "fit_transform: columns %r index %r; fit().transform(): columns %r index %r" % (list(via_ft.columns), list(via_ft.index)[:5], list(plain.columns), list(plain.index)[:5]), facts)

        def _cells0(df):
            return [[None if (isinstance(v, float) and v != v) or v is None else v for v in row] for row in df.astype(object).values.tolist()]
        require(_cells0(via_ft) == _cells0(plain), "fit_transform:cells", "fit_transform(X) differs from fit(X).transform(X)", facts)
    if wrapped is None:
        wrapped = plain = pandas.DataFrame()
    require(list(map(str, wrapped.columns)) == list(map(str, plain.columns)), "pandas-output:column-names",
            "under transform_output='pandas' the columns are %r, by default %r" % (list(wrapped.columns), list(plain.columns)), facts)
    def _cells(df):
        return [[None if (isinstance(v, float) and v != v) or v is None else v for v in row] for row in df.astype(object).values.tolist()]
    require(_cells(wrapped) == _cells(plain),
            "pandas-output:values", "under transform_output='pandas' the cells differ from the default configuration's", facts)
    has_missing = any(_is_missing(v) for c in fit_cols for v in case["test"][c])
    has_unseen = any((not _is_missing(v)) and v not in cats[c] for c in fit_cols for v in case["test"][c])
    labels |= {"single" if o["single"] else "indicators", "skip_errors" if o["skip_errors"] else "strict",
               "columns=" + facts["columns"], "dtype=" + case["dtype"],
               "has-missing" if has_missing else "no-missing", "has-unseen" if has_unseen else "no-unseen",
               "remove" if o["remove"] else "no-remove", "ncat=%d" % len(fit_cols), "query-rows>1024" if len(case["test_index"]) > 1024 else "query-rows<=1024", "refit-after-a-richer-frame" if case.get("fitted_before") else "first-fit"}
    return Outcome(labels, has_missing or has_unseen or len(fit_cols) >= 2)


ALPHA = ["a", "b", "c", "d", "aa", "B", "z y", "é", ""]          # the empty string is a category like any other
UNSEEN = ["u1", "u2", "A", "ab"]


@st.composite
def _cases(draw, tier="quick"):
    ncat = draw(st.integers(1, 3))
    nnum = draw(st.integers(0, 2))
    cat_cols = ["cat%d" % i for i in range(ncat)]
    num_cols = ["num%d" % i for i in range(nnum)]
    cols = draw(st.permutations(cat_cols + num_cols))
    dtype = "object"
    columns = draw(st.sampled_from(["auto", "explicit", "subset", "string"]))
    if columns == "auto":
        opt_cols = "auto"
    elif columns == "explicit":
        opt_cols = list(cat_cols)
        dtype = draw(st.sampled_from(["object", "str", "category"]))
    elif columns == "string":
        opt_cols = cat_cols[0]
    else:
        k = draw(st.integers(1, ncat))
        opt_cols = cat_cols[:k]
    missing = st.sampled_from([None, "__nan__"]) if dtype == "object" else st.just(None)
    ntr = draw(st.integers(1, 8 if tier == "quick" else 16))
    nte = draw(st.integers(1, 6 if tier == "quick" else 12))
    train, test = {}, {}
    for c in cat_cols:
        sub = draw(st.lists(st.sampled_from(ALPHA), min_size=1, max_size=4, unique=True))
        if dtype == "object" and draw(st.integers(0, 4)) == 0:
            # categories that are NUMBERS held in an object column (store ids, codes): their order is the order of numbers (2 < 10, -3 < 2)
            sub = draw(st.lists(st.sampled_from([2, 10, -3, 7, 100, 33, -20]), min_size=2, max_size=4, unique=True))
        cell = st.one_of(st.sampled_from(sub), st.sampled_from(sub), st.sampled_from(sub), missing)
        train[c] = draw(st.lists(cell, min_size=ntr, max_size=ntr))
        if all(_is_missing(v) for v in train[c]):
            train[c][draw(st.integers(0, ntr - 1))] = sub[0]
        tcell = st.one_of(st.sampled_from(sub), st.sampled_from(sub), st.sampled_from(ALPHA), missing, st.sampled_from(UNSEEN))
        test[c] = draw(st.lists(tcell, min_size=nte, max_size=nte))
    for c in num_cols:
        nk = draw(st.sampled_from(["float", "float", "int", "bigint"]))
        if nk == "float":
            cellv = st.integers(-40, 40).map(lambda k: k / 4.0)
        elif nk == "int":
            cellv = st.integers(-1000, 1000)
        else:
            cellv = st.integers(0, 4000).map(lambda k: 2**53 + 1 + 2 * k)          # not representable as float64
        train[c] = draw(st.lists(cellv, min_size=ntr, max_size=ntr))
        test[c] = draw(st.lists(cellv, min_size=nte, max_size=nte))
    # plant unseen values at chosen positions (first / last cell included)
    plant = draw(st.sampled_from(["none", "first", "last", "both", "row"]))
    if plant in ("first", "both"):
        test[cat_cols[0]][0] = draw(st.sampled_from(UNSEEN))
    if plant in ("last", "both"):
        test[cat_cols[-1]][-1] = draw(st.sampled_from(UNSEEN))
    if plant == "row":
        r = draw(st.integers(0, nte - 1))
        for c in cat_cols:
            test[c][r] = draw(st.sampled_from(UNSEEN))

    def index(n, dups=False):
        kind = draw(st.sampled_from(["default", "ints", "strs"] + (["dups", "dups"] if dups else [])))
        if kind == "dups":
            # repeated index labels (a bootstrap sample, two frames stacked without ignore_index): rows stay rows
            return [draw(st.integers(0, max(0, n // 2))) for _ in range(n)]
        if kind == "default":
            return list(range(n))
        if kind == "ints":
            return draw(st.lists(st.integers(-50, 50), min_size=n, max_size=n, unique=True))
        return ["r%d" % i for i in draw(st.lists(st.integers(0, 99), min_size=n, max_size=n, unique=True))]
    single = draw(st.booleans())
    remove = None
    if not single and draw(st.integers(0, 3)) == 0:
        c = draw(st.sampled_from(cat_cols))
        vals = sorted(set(v for v in train[c] if not _is_missing(v)))
        remove = ["%s=%s" % (c, draw(st.sampled_from(vals)))]
    return dict(cols=list(cols), cat_cols=cat_cols, train=train, test=test, train_index=index(ntr), test_index=index(nte, dups=True),
                dtype=dtype, options=dict(columns=opt_cols, single=single, skip_errors=draw(st.booleans()), remove=remove))


CLAUSES = [
    Clause("encode", check, strategy=lambda tier: st.builds(lambda c, t, f, fb: dict(c, tile=(1024 // len(c["test_index"]) + t) if f == 0 else 0, fitted_before=fb), with_np(_cases(tier)), st.integers(2, 200), st.integers(0, 15),
                                                        st.one_of(st.none(), st.none(), st.lists(st.sampled_from(ALPHA + UNSEEN), min_size=1, max_size=2))), quick=2400, thorough=40000, quick_shards=12,
           doc="fit on a frame, transform it and a second frame with missing/unseen values; reference encoder + metamorphic relation"),
]
