"""C07 - ConstraintKMeans produces clusters of equal size."""
from vf import loader
from vf.core import Clause, Outcome, Violation, require, np_scalars, with_np, with_sk, build_via

import numpy as np
from hypothesis import strategies as st
from sklearn.cluster import KMeans

PROPERTY = "C07"
RULE = ("Hypothesis draws k first, then n = a*k + r with r uniform in 0..k-1 (so every residue n mod k is covered), d 1..3, "
        "dyadic points with generated duplicate rows and optionally lopsided geometry (most points near one spot, which makes the "
        "plain k-means labels very unbalanced), strategy in {distance, gain}, kmeans0, random_state, global seed, max_iter 2..40, "
        "n_init 1..2, and query batches of any size m>=1; clause `large` repeats the statement on batches of 257..1100 rows through a small model and on training sets of 257..420 rows (rows derived from a drawn seed). Oracle: validity predicates from the statement (label histogram in "
        "{floor(n/k), ceil(n/k)}, labels in range(k), finite centres, n_iter_<=max_iter, balanced predictions obey the same "
        "constraint on the batch, plain predictions are a Euclidean-nearest centre). Non-trivial: n mod k >= 2, or the plain "
        "KMeans labels (same seed) violate the quota by >= 2, or duplicate rows. One case in three passes its scalar hyper-parameters as NumPy scalars (numpy.bool_, numpy.int64, numpy.float64). Distinct by (strategy, kmeans0, n, k, d, data).")
ASSUMPTIONS = ["strategy='weights' is outside the statement and not generated", "no sample weights (the statement does not mention them)",
               "max_iter >= 2 (fit halves it for the initial k-means and scikit-learn rejects max_iter=0)"]
TOLERANCES = {"nearest-centre": "1e-9 * (1 + max squared distance)"}

_mod = loader.module("mlmodel.kmeans_constraint")


def _hist_ok(labels, k, n):
    h = np.bincount(np.asarray(labels, dtype=np.int64), minlength=k)
    lo, hi = n // k, -(-n // k)
    return bool(np.all((h >= lo) & (h <= hi))) and len(h) == k, h


def _model(case, balanced):
    # via_set_params: built with the OPPOSITE prediction mode and another strategy, then configured with set_params
    return build_via(_mod.ConstraintKMeans, np_scalars(dict(n_clusters=case["k"], strategy=case["strategy"], kmeans0=case["kmeans0"],
                                                   random_state=case["random_state"], max_iter=case["max_iter"], n_init=case["n_init"],
                                                   balanced_predictions=balanced, init=case.get("init", "k-means++")), case.get("np_params", False)),
                     case.get("via_set_params"), dict(balanced_predictions=not balanced, strategy="gain" if case["strategy"] == "distance" else "distance", n_clusters=2))


def _expand(case):
    """large cases carry (size, seed) instead of the table itself: the rows are a pure function of the case"""
    g = case.get("gen")
    if not g:
        return case
    rs = np.random.RandomState(g["seed"])
    X = rs.randint(-64, 65, size=(g["n"], g["d"])) / 8.0
    if g.get("dups"):
        X = X[rs.randint(0, max(1, g["n"] // 3), size=g["n"])]
    Q = rs.randint(-64, 65, size=(g["m"], g["d"])) / 8.0
    return dict(case, X=X.tolist(), Q=Q.tolist())


def check_fit(case):
    case = _expand(case)
    X = np.array(case["X"], dtype=np.float64)
    n, d = X.shape
    k = case["k"]
    facts = dict(strategy=case["strategy"], kmeans0=case["kmeans0"], n=n, k=k, n_mod_k=n % k, d=d)
    X0 = X.copy()
    np.random.seed(case["seed"])
    m = _model(case, case["balanced"])
    r = m.fit(X)
    require(r is m, "fit:not-self", "", facts)
    require(np.array_equal(X, X0), "input-modified", "", facts)
    labels = np.asarray(m.labels_)
    require(labels.shape == (n,), "labels:shape", "%r" % (labels.shape,), facts)
    require(np.issubdtype(labels.dtype, np.integer) and labels.min() >= 0 and labels.max() < k, "labels:range",
            "labels %r" % labels.tolist(), facts)
    ok, h = _hist_ok(labels, k, n)
    require(ok, "fit:sizes", "cluster sizes %r for n=%d k=%d (allowed %d..%d)" % (h.tolist(), n, k, n // k, -(-n // k)), facts)
    C = np.asarray(m.cluster_centers_)
    require(C.shape == (k, d) and bool(np.all(np.isfinite(C))), "centers:not-finite", "%r" % C.tolist(), facts)
    require(int(m.n_iter_) <= case["max_iter"], "n_iter:exceeds-max_iter", "%r > %r" % (m.n_iter_, case["max_iter"]), facts)
    require(m.max_iter == case["max_iter"], "max_iter:changed", "%r" % m.max_iter, facts)

    Q = np.array(case["Q"], dtype=np.float64).reshape(-1, d)
    mq = len(Q)
    if case["balanced"]:
        np.random.seed(case["seed"] + 1)
        p = np.asarray(m.predict(Q))
        require(p.shape == (mq,) and p.min() >= 0 and p.max() < k, "predict:range", "%r" % p.tolist(), facts)
        ok, hq = _hist_ok(p, k, mq)
        require(ok, "predict:sizes", "balanced predictions sizes %r for m=%d k=%d" % (hq.tolist(), mq, k), dict(facts, m=mq, m_mod_k=mq % k))
    else:
        p = np.asarray(m.predict(Q))
        require(p.shape == (mq,) and p.min() >= 0 and p.max() < k, "predict:range", "%r" % p.tolist(), facts)
        D = ((Q[:, None, :] - C[None, :, :]) ** 2).sum(axis=2)
        chosen = D[np.arange(mq), p]
        tol = 1e-9 * (1.0 + D.max())
        require(bool(np.all(chosen <= D.min(axis=1) + tol)), "predict:not-nearest", "", facts)
    if case.get("refit_then_predict"):
        # the instance is trained again on other rows (same k) after it answered: its answers are about the second model
        X2 = np.ascontiguousarray(X[::-1] * 0.5 + 3.0)
        np.random.seed(case["seed"] + 2)
        m.fit(X2)
        ok2, h2 = _hist_ok(np.asarray(m.labels_), k, n)
        require(ok2, "fit:sizes:refit", "cluster sizes %r for n=%d k=%d after a second fit" % (h2.tolist(), n, k), facts)
        C2 = np.asarray(m.cluster_centers_)
        np.random.seed(case["seed"] + 3)
        p2 = np.asarray(m.predict(Q))
        if case["balanced"]:
            okq, hq2 = _hist_ok(p2, k, mq)
            require(okq, "predict:sizes:refit", "balanced predictions sizes %r for m=%d k=%d after a second fit" % (hq2.tolist(), mq, k), facts)
        else:
            D2 = ((Q[:, None, :] - C2[None, :, :]) ** 2).sum(axis=2)
            require(bool(np.all(D2[np.arange(mq), p2] <= D2.min(axis=1) + 1e-9 * (1.0 + D2.max()))), "predict:not-nearest:refit",
                    "after a second fit, predict does not return the nearest of the NEW centres", facts)
    # how unbalanced was the plain k-means with the same seed? (label only)
    try:
        km = KMeans(n_clusters=k, random_state=case["random_state"] if case["random_state"] is not None else case["seed"] % 1000,
                    n_init=1, max_iter=max(1, case["max_iter"] // 2)).fit(X)
        h0 = np.bincount(km.labels_, minlength=k)
        unbalanced = int(max(h0.max() - (-(-n // k)), (n // k) - h0.min()))
    except Exception:  # noqa: BLE001 - label only
        unbalanced = 0
    dup = len(np.unique(X, axis=0)) < n
    labels_ = [case["strategy"], "kmeans0" if case["kmeans0"] else "random-start", "nmodk=%d" % min(n % k, 3),
               "balanced-predict" if case["balanced"] else "plain-predict", "dup" if dup else "nodup", "query-dups" if len(set(map(tuple, case["Q"]))) < len(case["Q"]) else "query-distinct",
               "kmeans-unbalanced>=2" if unbalanced >= 2 else "kmeans-balanced", "k=1" if k == 1 else ("n==k" if n == k else "n>k"),
               "n>256" if n > 256 else "n<=256", "batch>256" if mq > 256 else "batch<=256"]
    return Outcome(labels_, (n % k >= 2) or unbalanced >= 2 or dup)


_cell = st.integers(-64, 64).map(lambda v: v / 8.0)


@st.composite
def _cases(draw, tier="quick"):
    k = draw(st.integers(1, 6))
    nmax = 36 if tier == "quick" else 60
    a = draw(st.integers(1, max(1, nmax // k)))
    r = draw(st.integers(0, k - 1))
    n = a * k + r
    d = draw(st.integers(1, 3))
    geometry = draw(st.sampled_from(["uniform", "lopsided", "dups"]))
    if geometry == "uniform":
        X = draw(st.lists(st.lists(_cell, min_size=d, max_size=d), min_size=n, max_size=n))
    elif geometry == "lopsided":
        centre = draw(st.lists(_cell, min_size=d, max_size=d))
        near = st.lists(st.integers(-4, 4).map(lambda v: v / 16.0), min_size=d, max_size=d)
        X = []
        for i in range(n):
            if draw(st.integers(0, 5)) == 0:
                X.append(draw(st.lists(_cell, min_size=d, max_size=d)))
            else:
                off = draw(near)
                X.append([c + o for c, o in zip(centre, off)])
    else:
        pool = draw(st.lists(st.lists(_cell, min_size=d, max_size=d), min_size=1, max_size=max(1, n // 2)))
        X = [draw(st.sampled_from(pool)) for _ in range(n)]
    # scikit-learn needs at least k distinct points for k-means++ not to warn/fail; keep n>=k distinct when kmeans0
    mq = draw(st.integers(1, 20))
    Q = draw(st.lists(st.lists(_cell, min_size=d, max_size=d), min_size=mq, max_size=mq))
    if draw(st.integers(0, 2)) == 0:
        # a query batch with repeated rows (uneven multiplicities): the quota is about the batch, not about its distinct rows
        qpool = Q[:max(1, mq // 3)]
        Q = [draw(st.sampled_from(qpool)) if draw(st.integers(0, 2)) else q for q in Q]
    return dict(X=X, k=k, strategy=draw(st.sampled_from(["distance", "gain"])), kmeans0=draw(st.booleans()),
                random_state=draw(st.one_of(st.none(), st.integers(0, 1000))), seed=draw(st.integers(0, 2**31 - 2)),
                max_iter=draw(st.integers(2, 40)), n_init=draw(st.integers(1, 2)), balanced=draw(st.booleans()), Q=Q)


def check_optimized(case):
    """the statement does not depend on how the interpreter was started: the same checks under `python -O`, where assert statements
    (the library has many) are not executed"""
    import json
    import os
    import subprocess
    import sys
    root = os.path.dirname(os.path.dirname(os.path.dirname(os.path.abspath(__file__))))
    env = dict(os.environ)
    env["PYTHONPATH"] = root + os.pathsep + env.get("PYTHONPATH", "")
    r = subprocess.run([sys.executable, "-O", "-m", "vf.subrun", "vf.props.c07", "check_fit"], input=json.dumps(case["subs"]), capture_output=True, text=True, env=env, cwd=root)
    if r.returncode != 0:
        raise RuntimeError("subrun failed: %s" % r.stderr[-800:])
    doc = json.loads(r.stdout)
    if doc["optimize"] < 1:
        raise RuntimeError("the child interpreter did not run with -O")
    for sub, res in zip(case["subs"], doc["results"]):
        if res["ok"] is None:
            raise RuntimeError("harness error in the child: %s" % res["error"])
        if not res["ok"]:
            raise Violation("python-O:" + res["sig"], "under python -O: " + res["msg"], dict(strategy=sub["strategy"], k=sub["k"], n=len(sub["X"])))
    return Outcome(["subcases=%d" % len(case["subs"])] + sorted(set(s_["strategy"] for s_ in case["subs"])), True)


@st.composite
def _optimized_cases(draw, tier="quick"):
    return dict(subs=[draw(_cases(tier)) for _ in range(draw(st.integers(6, 10)))])


@st.composite
def _large_cases(draw, tier="quick"):
    """sizes beyond a few hundred rows (internal block sizes, buffers): a large batch through a small model, or a large training set"""
    k = draw(st.integers(2, 7))
    big_fit = draw(st.integers(0, 3)) == 0
    n = draw(st.integers(257, 420)) if big_fit else draw(st.integers(k, 40))
    m = draw(st.integers(1, 40)) if big_fit else draw(st.sampled_from([257, 300, 511, 513, 600, 777, 1025]) if draw(st.booleans()) else st.integers(257, 1100))
    return dict(gen=dict(n=n, m=m, d=draw(st.integers(1, 2)), seed=draw(st.integers(0, 2**31 - 2)), dups=draw(st.integers(0, 4)) == 0), k=k,
                strategy=draw(st.sampled_from(["distance", "gain"])), kmeans0=draw(st.booleans()),
                random_state=draw(st.one_of(st.none(), st.integers(0, 1000))), seed=draw(st.integers(0, 2**31 - 2)),
                max_iter=draw(st.integers(2, 10)), n_init=1, balanced=True if not big_fit else draw(st.booleans()))


CLAUSES = [
    Clause("python-O", check_optimized, strategy=lambda tier: with_sk(_optimized_cases(tier)), quick=32, thorough=400, quick_shards=16, thorough_shards=16,
           doc="6-10 fit/predict cases per evaluation re-run in a child interpreter started with -O (assert statements not executed)"),
    Clause("large", check_fit, strategy=lambda tier: with_sk(with_np(_large_cases(tier))), quick=48, thorough=800, quick_shards=16, thorough_shards=16,
           doc="the same statement on batches / training sets of several hundred rows (sizes crossing 256, 512, 1024)"),
    Clause("fit-predict", check_fit, strategy=lambda tier: st.builds(lambda c, v, rf: dict(c, via_set_params=v, refit_then_predict=rf), with_sk(with_np(_cases(tier))), st.sampled_from([False, False, True]), st.sampled_from([False, False, True])), quick=3200, thorough=60000, quick_shards=16,
           doc="sizes after fit, label range, finite centres, n_iter_, balanced / nearest predictions"),
]
