"""C09 - PiecewiseTreeRegressor: per-leaf least squares; criteria compute the true MSE."""
from vf import loader
from vf.core import Clause, Outcome, Violation, require

import itertools
import numpy as np
from hypothesis import strategies as st

PROPERTY = "C09"
RULE = ("model-*: Hypothesis draws (X, y) with continuous noise, n 6..60, d 1..3, criterion in {mselin, simple}, max_depth 1..4, "
        "min_samples_leaf 1..8 (unit weights for mselin, positive weights for simple); leaves are read through apply(). "
        "criteria-*: for SimpleRegressorCriterion, SimpleRegressorCriterionFast, LinearRegressorCriterion, Hypothesis draws n 1..10, "
        "dyadic y, strictly positive dyadic weights (unit for the linear criterion), a permutation as sample order, and inside each "
        "case EVERY triple 0<=start<end<=n, start<=pos<=end is visited following the call protocol of scikit-learn's tree builder "
        "(init; update(candidate)+proxy for another candidate; update(pos); children_impurity; impurity_improvement), plus a re-init of "
        "the same object on another range (stale buffers). criteria-perms (thorough): all permutations for n<=5. Oracle: NumPy "
        "formulas written from the statement. Non-trivial: tree with >=2 leaves (model); start>0 or end<n or non-identity order "
        "(criteria). Distinct = distinct case JSON.")
ASSUMPTIONS = ["criteria are driven only through the _test_criterion_* accessors the compiled module exports, with indices inside [start, end]",
               "linear criterion: unit weights; exactly rank-deficient designs are compared (the residual of the projection is unique), only designs with a singular value strictly between the rounding cut-off and 1e-6 x the largest are skipped",
               "X is a float64 C-contiguous array (the compiled criterion takes a typed memoryview)"]
TOLERANCES = {"criteria": "1e-9 * (1 + max y^2)", "model mselin": "1e-6 * (1 + max|y|)", "model simple": "1e-9 * (1 + max|y|)"}

_common = loader.module("mlmodel._piecewise_tree_regression_common")
_simple = loader.module("mlmodel.piecewise_tree_regression_criterion").SimpleRegressorCriterion
_fast = loader.module("mlmodel.piecewise_tree_regression_criterion_fast").SimpleRegressorCriterionFast
_linear = loader.module("mlmodel.piecewise_tree_regression_criterion_linear").LinearRegressorCriterion
_PTR = loader.module("mlmodel.piecewise_tree_regression").PiecewiseTreeRegressor

T = _common


def _make(kind, n, X):
    if kind == "simple":
        return _simple(1, n)
    if kind == "fast":
        return _fast(1, n)
    return _linear(1, X)


def _ref_node(kind, X, y, w, idx):
    """(value, impurity or None when not comparable)"""
    if len(idx) == 0:
        return 0.0, 0.0
    ww, yy = w[idx], y[idx]
    W = ww.sum()
    mean = float((ww * yy).sum() / W)
    if kind in ("simple", "fast"):
        return mean, float((ww * (yy - mean) ** 2).sum() / W)
    m, d = len(idx), X.shape[1]
    if m <= d + 1:
        return mean, 0.0
    A = np.hstack([X[idx], np.ones((m, 1))])
    sv = np.linalg.svd(A, compute_uv=False)
    cut = max(A.shape) * np.finfo(np.float64).eps * sv[0]
    # compared when the design is well conditioned OR exactly rank deficient (every singular value either clearly above or
    # at rounding level: the residual of the projection is then unique and stable); skipped only for genuinely
    # ill-conditioned designs in between
    inbetween = sv[(sv > cut) & (sv < 1e-6 * sv[0])]
    if len(inbetween):
        return mean, None
    beta, *_ = np.linalg.lstsq(A, yy, rcond=None)
    res = yy - A @ beta
    return mean, float((res ** 2).sum() / m)


def _expand_long(case):
    """long node ranges (hundreds of rows): the values are a deterministic function of the drawn `long` parameters"""
    g = case["long"]
    rs = np.random.RandomState(g["seed"])
    n = g["n"]
    y = rs.randint(-64, 65, size=n) / 8.0
    if case["kind"] == "linear":
        w = np.ones(n)
        X = (rs.permutation(4 * n)[:n] / 4.0).reshape(n, 1)          # distinct abscissas
    else:
        w = np.ones(n) if g["unit"] else rs.randint(1, 33, size=n) / 8.0
        X = np.zeros((n, 1))
    order = np.arange(n) if g["identity"] else rs.permutation(n)
    return dict(case, y=y.tolist(), w=w.tolist(), X=X.tolist(), order=order.tolist())


def check_criteria(case):
    if "long" in case:
        case = _expand_long(case)
    kind = case["kind"]
    y = np.array(case["y"], dtype=np.float64)
    n = len(y)
    w = np.array(case["w"], dtype=np.float64)
    if kind != "linear" and not bool(np.all(w == 1)):
        # importance weights of any magnitude: every quantity of the statement is a ratio of weighted sums
        w = w * float(case.get("wscale", 1.0))
    X = np.ascontiguousarray(np.array(case["X"], dtype=np.float64).reshape(n, -1))
    samples = np.array(case["order"], dtype=np.intp)
    ys = np.ascontiguousarray(y.reshape(n, 1))
    Wtot = float(w.sum())
    tol = 1e-9 * (1.0 + float((y ** 2).max()))
    facts = dict(kind=kind, n=n)
    crit = _make(kind, n, X)
    skipped = 0
    ntriples = 0
    ranges = [(s, e) for s in range(n) for e in range(s + 1, n + 1)] if "ranges" not in case else [tuple(r) for r in case["ranges"]]
    prev_range = None
    for (start, end) in ranges:
        T._test_criterion_init(crit, ys, w, Wtot, samples, start, end)
        idx = samples[start:end]
        val, imp = _ref_node(kind, X, y, w, idx)
        f2 = dict(facts, start=start, end=end)
        got_val = T._test_criterion_node_value(crit)
        require(abs(got_val - val) <= tol, "node_value", "range [%d,%d): %r, weighted mean %r" % (start, end, got_val, val), f2)
        got_imp = T._test_criterion_node_impurity(crit)
        if imp is None:
            skipped += 1
        else:
            require(abs(got_imp - imp) <= tol, "node_impurity", "range [%d,%d): %r, reference %r" % (start, end, got_imp, imp), f2)
        Wnode = float(w[idx].sum())
        for pos in (range(start, end + 1) if "positions" not in case else sorted(set(start + p % (end - start + 1) for p in case["positions"]))):
            ntriples += 1
            # builder protocol: a different candidate is evaluated last, then the chosen split
            other = start + ((pos - start + 1 + case["skew"]) % (end - start + 1))
            if case["candidates"]:
                T._test_criterion_update(crit, other)
                T._test_criterion_proxy_impurity_improvement(crit)
            T._test_criterion_update(crit, pos)
            left, right = T._test_criterion_node_impurity_children(crit)
            li, ri = samples[start:pos], samples[pos:end]
            _, il = _ref_node(kind, X, y, w, li)
            _, ir = _ref_node(kind, X, y, w, ri)
            f3 = dict(f2, pos=pos)
            if il is not None:
                require(abs(left - il) <= tol, "children_impurity:left", "[%d,%d,%d): %r, reference %r" % (start, pos, end, left, il), f3)
            if ir is not None:
                require(abs(right - ir) <= tol, "children_impurity:right", "[%d,%d,%d): %r, reference %r" % (start, pos, end, right, ir), f3)
            # the improvement formula of the statement, on the values the criterion itself reported
            p_imp = got_imp
            Wl, Wr = float(w[li].sum()), float(w[ri].sum())
            expected = Wnode / Wtot * (p_imp - Wr / Wnode * right - Wl / Wnode * left)
            # the formula is a function of the three impurities it is GIVEN (a caller may pass rounded or hypothetical values)
            for dl, dr in ((0.25, -0.125), (-left, -right)):
                alt = T._test_criterion_impurity_improvement(crit, p_imp + 0.5, left + dl, right + dr)
                exp_alt = Wnode / Wtot * ((p_imp + 0.5) - Wr / Wnode * (right + dr) - Wl / Wnode * (left + dl))
                require(abs(alt - exp_alt) <= tol, "impurity_improvement:ignores-its-arguments",
                        "[%d,%d,%d) with parent=%r left=%r right=%r: %r, formula %r" % (start, pos, end, p_imp + 0.5, left + dl, right + dr, alt, exp_alt), f3)
            got = T._test_criterion_impurity_improvement(crit, p_imp, left, right)
            require(abs(got - expected) <= tol, "impurity_improvement" + (":after-other-candidate" if case["candidates"] else ""),
                    "[%d,%d,%d): %r, expected %r (W_left=%r W_right=%r W_node=%r W_total=%r)" % (
                        start, pos, end, got, expected, Wl, Wr, Wnode, Wtot), f3)
        prev_range = (start, end)
    # stale buffers: a re-used object must answer like a fresh one on the same range
    s, e = case["reinit"]
    s, e = min(s, n - 1), min(max(e, min(s, n - 1) + 1), n)
    fresh = _make(kind, n, X)
    T._test_criterion_init(fresh, ys, w, Wtot, samples, s, e)
    T._test_criterion_init(crit, ys, w, Wtot, samples, s, e)
    a = (T._test_criterion_node_value(crit), T._test_criterion_node_impurity(crit))
    b = (T._test_criterion_node_value(fresh), T._test_criterion_node_impurity(fresh))
    require(abs(a[0] - b[0]) <= tol and abs(a[1] - b[1]) <= tol, "stale-state", "re-used criterion %r, fresh criterion %r on [%d,%d)" % (a, b, s, e),
            dict(facts, start=s, end=e))
    # ... also when the SAME range is initialised again with other targets and weights (nothing kept from the earlier initialisation
    # may be keyed by the range alone)
    y2 = np.ascontiguousarray((y[::-1] * 0.5 + 1.25).reshape(n, 1))
    w2 = w if kind == "linear" else np.ascontiguousarray(w[::-1].copy())
    W2 = float(w2.sum())
    fresh2 = _make(kind, n, X)
    T._test_criterion_init(fresh2, y2, w2, W2, samples, s, e)
    T._test_criterion_init(crit, y2, w2, W2, samples, s, e)
    for pos in sorted(set([s, (s + e) // 2, e])):
        T._test_criterion_update(crit, pos)
        T._test_criterion_update(fresh2, pos)
        a = (T._test_criterion_node_value(crit), T._test_criterion_node_impurity(crit)) + tuple(T._test_criterion_node_impurity_children(crit))
        b = (T._test_criterion_node_value(fresh2), T._test_criterion_node_impurity(fresh2)) + tuple(T._test_criterion_node_impurity_children(fresh2))
        require(all(abs(u - v) <= tol for u, v in zip(a, b)), "stale-state:same-range-other-targets",
                "re-used criterion %r, fresh criterion %r on [%d,%d,%d) after the targets changed" % (a, b, s, pos, e), dict(facts, start=s, end=e, pos=pos))
    ident = list(case["order"]) == list(range(n))
    return Outcome([kind, "identity-order" if ident else "permuted", "candidates" if case["candidates"] else "direct",
                    "n=1" if n == 1 else ("n<=4" if n <= 4 else ("n>4" if n <= 128 else "n>128")), "cond-skipped" if skipped else "all-compared",
                    "unit-weights" if bool(np.all(w == 1)) else "weights", "wscale=%g" % case.get("wscale", 1.0)], n >= 2)


_yv = st.integers(-64, 64).map(lambda v: v / 8.0)


@st.composite
def _crit_cases(draw, tier="quick"):
    kind = draw(st.sampled_from(["simple", "fast", "linear"]))
    n = draw(st.integers(1, 10 if tier == "quick" else 14))
    y = draw(st.lists(_yv, min_size=n, max_size=n))
    d = draw(st.integers(1, 2))
    if kind == "linear":
        w = [1.0] * n
        # distinct x values keep most ranges well conditioned
        xs = draw(st.lists(st.integers(-40, 40), min_size=n, max_size=n, unique=draw(st.booleans())))
        second = draw(st.sampled_from(["free", "free", "collinear", "indicator", "constant"]))
        X = []
        for i, v in enumerate(xs):
            row = [v / 4.0]
            if d == 2:
                if second == "free":
                    row.append(draw(_yv))
                elif second == "collinear":
                    row.append(v / 2.0 + 1.0)            # exactly collinear with the first feature and the intercept
                elif second == "indicator":
                    row.append(0.0 if i < n // 2 else 1.0)  # constant inside many ranges
                else:
                    row.append(1.5)
            X.append(row)
    else:
        w = draw(st.one_of(st.just([1.0] * n), st.lists(st.integers(1, 32).map(lambda v: v / 8.0), min_size=n, max_size=n)))
        X = [[0.0] for _ in range(n)]
    order = list(draw(st.permutations(list(range(n)))))
    if draw(st.integers(0, 4)) == 0:
        order = list(range(n))
    return dict(kind=kind, y=y, w=w, X=X, order=order, candidates=draw(st.booleans()), skew=draw(st.integers(0, 3)),
                reinit=[draw(st.integers(0, n - 1)), draw(st.integers(1, n))], wscale=draw(st.sampled_from([1.0, 1.0, 1e-13, 1e-6, 1e6])))


@st.composite
def _long_crit_cases(draw, tier="quick"):
    n = draw(st.sampled_from([129, 130, 200, 257, 258, 300, 513, 700]))
    ranges = []
    for _ in range(4):
        a, b = draw(st.integers(0, n - 1)), draw(st.integers(1, n))
        s_, e_ = min(a, b - 1), max(a + 1, b)
        ranges.append([s_, e_])
    ranges.append([0, n])
    ranges.append([draw(st.integers(1, n - 129)) if n > 129 else 0, n])
    return dict(kind=draw(st.sampled_from(["simple", "fast", "linear"])), long=dict(n=n, seed=draw(st.integers(0, 2**31 - 2)), unit=draw(st.booleans()), identity=draw(st.integers(0, 3)) == 0),
                ranges=ranges, positions=[draw(st.integers(0, 2 * n)) for _ in range(4)] + [0, 1, 128, 129, 256, 257],
                candidates=draw(st.booleans()), skew=draw(st.integers(0, 3)), reinit=[draw(st.integers(0, n - 1)), draw(st.integers(1, n))],
                wscale=draw(st.sampled_from([1.0, 1.0, 1e-6, 1e6])))


def _perm_cases(tier):
    if tier == "quick":
        sizes = (3, 4)
    else:
        sizes = (1, 2, 3, 4, 5)
    for kind in ("simple", "fast", "linear"):
        for n in sizes:
            y = [((7 * i * i + 3 * i) % 11) / 2.0 - 2.0 for i in range(n)]
            w = [1.0] * n if kind == "linear" else [1.0 + (i % 3) / 2.0 for i in range(n)]
            X = [[float(i) + (0.25 if i % 2 else 0.0)] for i in range(n)]
            for order in itertools.permutations(range(n)):
                for cand in (False, True):
                    yield dict(kind=kind, y=y, w=w, X=X, order=list(order), candidates=cand, skew=0, reinit=[0, n])


# ------------------------------------------------------------------------- model group
def check_model(case):
    X = np.ascontiguousarray(np.array(case["X"], dtype=np.float64))
    n, d = X.shape
    X0_ = X
    if case.get("xoffset"):
        X = X.copy()
        X[:, 0] += float(case["xoffset"])            # a feature with a large offset relative to its spread (a year, a timestamp, a zip code)
    y = X0_ @ np.array(case["beta"]) + np.where(X0_[:, 0] > case["knot"], case["jump"], 0.0) + case["amp"] * np.array(case["noise"][:n])
    crit = case["criterion"]
    w = None
    if crit == "simple" and case["w"] is not None:
        w = np.array(case["w"][:n], dtype=np.float64) * float(case.get("wscale", 1.0))
    facts = dict(criterion=crit, n=n, d=d, max_depth=case["max_depth"], min_samples_leaf=case["min_samples_leaf"])
    m = _PTR(criterion=crit, max_depth=case["max_depth"], min_samples_leaf=case["min_samples_leaf"], random_state=0)
    X0, y0 = X.copy(), y.copy()
    bad = case.get("bad_first")
    if bad:
        # a fit that raises inside the tree builder's own validation (after the criterion name was swapped for an object), then the real
        # fit on the same instance: the name is back and the leaves are fitted as for a fresh instance
        yb, wb = y.copy(), w
        if bad == "nan-y":
            yb[0] = np.nan
        elif bad == "short-weights":
            wb = np.ones(n - 1)
        elif bad == "negative-depth":
            m.set_params(max_depth=-1)
        try:
            m.fit(X, yb, sample_weight=wb)
            bad = bad + ":accepted"
        except Exception:  # noqa: BLE001 - the refusal itself is C02's business
            pass
        require(m.get_params()["criterion"] == crit, "criterion:not-restored:after-failed-fit", "criterion is %r after a fit that raised (%s)" % (m.get_params()["criterion"], bad), facts)
        m.set_params(max_depth=case["max_depth"])
    facts["bad_first"] = bad or "none"
    r = m.fit(X, y, sample_weight=w)
    require(r is m, "fit:not-self", "", facts)
    require(m.criterion == crit, "criterion:not-restored", "criterion is %r after fit" % (m.criterion,), facts)
    require(np.array_equal(X, X0) and np.array_equal(y, y0), "input-modified", "", facts)
    t = m.tree_
    require(t.max_depth <= case["max_depth"], "max_depth", "%d > %d" % (t.max_depth, case["max_depth"]), facts)
    leaves = np.nonzero(t.children_left == -1)[0]
    require(len(leaves) == 1 or bool(np.all(t.n_node_samples[leaves] >= case["min_samples_leaf"])), "min_samples_leaf",
            "leaf sizes %r" % t.n_node_samples[leaves].tolist(), facts)
    Q = np.ascontiguousarray(np.array(case["Q"], dtype=np.float64).reshape(-1, d))
    if case.get("xoffset") and len(Q):
        Q[:, 0] += float(case["xoffset"])
    app_tr = m.apply(X)
    pred_tr = m.predict(X)
    require(pred_tr.shape == (n,), "predict:shape", "%r" % (pred_tr.shape,), facts)
    app_q = m.apply(Q) if len(Q) else np.zeros(0, dtype=int)
    pred_q = m.predict(Q) if len(Q) else np.zeros(0)
    scale = 1.0 + float(np.abs(y).max())
    wellcond = 0
    for leaf in leaves:
        ind = app_tr == leaf
        require(ind.sum() == t.n_node_samples[leaf], "leaf:training-rows", "leaf %d" % leaf, facts)
        Xl, yl = X[ind], y[ind]
        if crit == "mselin":
            # reference: least squares on the CENTRED design (same column space as [X, 1], well conditioned whatever offset the features carry)
            mu = Xl.mean(axis=0)
            A = np.hstack([Xl - mu, np.ones((len(Xl), 1))])
            beta, *_ = np.linalg.lstsq(A, yl, rcond=None)
            proj = A @ beta
            err = np.abs(pred_tr[ind] - proj).max()
            good = len(Xl) > d + 1 and np.linalg.cond(A) < 1e6
            ltol = 1e-6 * scale
            skip = False
            if case.get("xoffset"):
                # the documented design [X, 1] carrying an offset of 1e3..1e5 is full rank but ill conditioned (about offset**2 / spread):
                # a backward-stable solve in double precision gives the fitted values to about cond * eps * |y| (numpy's own lstsq on the
                # raw design deviates as much); leaves whose raw design is beyond that budget are not judged
                cond_raw = float(np.linalg.cond(np.hstack([Xl, np.ones((len(Xl), 1))])))
                budget = 1000 * np.finfo(np.float64).eps * cond_raw
                skip = not (budget < 1e-2)
                ltol = max(1e-6, budget) * scale
                good = good and not skip
            if (good or len(Xl) <= d + 1) and not skip:
                # projection of y on span[X,1] is unique; compare on training rows
                require(err <= ltol, "mselin:leaf-fit", "leaf %d (%d rows): max deviation from the least-squares fit %.3g" % (leaf, len(Xl), err), facts)
            if good:
                wellcond += 1
                qi = app_q == leaf
                if qi.any():
                    ref = np.hstack([Q[qi] - mu, np.ones((int(qi.sum()), 1))]) @ beta
                    errq = np.abs(pred_q[qi] - ref).max()
                    require(errq <= ltol * (1 + np.abs(Q[qi] - mu).max()), "mselin:query-row", "leaf %d: deviation %.3g" % (leaf, errq), facts)
        else:
            ww = np.ones(len(yl)) if w is None else w[ind]
            mean = float((ww * yl).sum() / ww.sum())
            require(np.abs(pred_tr[ind] - mean).max() <= 1e-9 * scale, "simple:leaf-mean",
                    "leaf %d predicts %r, weighted mean %r" % (leaf, float(pred_tr[ind][0]), mean), facts)
            qi = app_q == leaf
            if qi.any():
                require(np.abs(pred_q[qi] - mean).max() <= 1e-9 * scale, "simple:query-row", "leaf %d" % leaf, facts)
    nl = len(leaves)
    return Outcome([crit, "leaves=1" if nl == 1 else ("leaves<=4" if nl <= 4 else "leaves>4"), "weights" if w is not None else "unit",
                    "d=%d" % d, "has-wellcond-leaf" if wellcond else "no-wellcond-leaf", "failed-fit-first:" + str(facts["bad_first"]), "xoffset=%g" % float(case.get("xoffset") or 0)], nl >= 2)


_u = st.integers(-999983, 999983).map(lambda v: v / 1e6)


@st.composite
def _model_cases(draw, tier="quick"):
    n = draw(st.integers(6, 40 if tier == "quick" else 60))
    d = draw(st.integers(1, 3))
    X = [[draw(st.integers(-32, 32)) / 4.0 + 0.01 * draw(_u) for _ in range(d)] for _ in range(n)]
    crit = draw(st.sampled_from(["mselin", "simple"]))
    mq = draw(st.integers(0, 10))
    return dict(X=X, beta=[draw(st.integers(-8, 8)) / 4.0 for _ in range(d)], knot=draw(st.integers(-16, 16)) / 4.0,
                jump=draw(st.integers(-16, 16)) / 2.0, amp=draw(st.sampled_from([0.05, 0.5, 2.0])),
                noise=[draw(_u) for _ in range(60)], criterion=crit, max_depth=draw(st.integers(1, 4)),
                min_samples_leaf=draw(st.integers(1, 8)),
                w=draw(st.one_of(st.none(), st.lists(st.integers(1, 16).map(lambda v: v / 4.0), min_size=60, max_size=60))),
                Q=[[draw(st.integers(-36, 36)) / 4.0 for _ in range(d)] for _ in range(mq)],
                bad_first=draw(st.sampled_from([None, None, None, "nan-y", "short-weights", "negative-depth"])),
                wscale=draw(st.sampled_from([1.0, 1.0, 1e-13, 1e6])), xoffset=draw(st.sampled_from([0, 0, 0, 1e3, 1e5])))


CLAUSES = [
    Clause("criteria", check_criteria, strategy=lambda tier: _crit_cases(tier), quick=6000, thorough=100000, quick_shards=12,
           doc="node value / impurity / children impurities / improvement for every (start,pos,end) of each generated case, builder protocol"),
    Clause("criteria-long", check_criteria, strategy=lambda tier: _long_crit_cases(tier), quick=600, thorough=12000, quick_shards=8,
           doc="the same quantities on node ranges of 129-700 rows (a few ranges and split positions per case)"),
    Clause("criteria-perms", check_criteria, cases=_perm_cases, quick_shards=4, thorough_shards=16, exhaustive=True,
           doc="all sample orders for small n (3-4 quick, 1-5 thorough), all triples, with and without a preceding candidate"),
    Clause("model", check_model, strategy=lambda tier: _model_cases(tier), quick=2400, thorough=40000, quick_shards=8,
           doc="mselin: per-leaf least squares; simple: leaf mean; max_depth / min_samples_leaf honoured; criterion restored"),
]
