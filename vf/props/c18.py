"""C18 - correlation and comparable-score metrics are well defined."""
from vf import loader
from vf.estimators import StickyRegressor
from vf.core import Clause, Outcome, Violation, require

import numpy as np
import pandas
from hypothesis import strategies as st
from sklearn.dummy import DummyRegressor
from sklearn.linear_model import LinearRegression
from sklearn.metrics import r2_score
from sklearn.model_selection import train_test_split
from sklearn.tree import DecisionTreeRegressor

PROPERTY = "C18"
RULE = ("correlations: Hypothesis draws a table (n 4..40 rows, 1..5 columns, dyadic values, optional constant columns and exact linear "
        "copies of another column, int or float dtype), generated column labels, a model in {LinearRegression, "
        "DecisionTreeRegressor(random_state), DummyRegressor}, draws 1..4, minmax and a global seed; the function is called on the "
        "DataFrame and on its array under the same seed. Oracle: square k x k, finite entries in [0,1], min<=mean<=max, frame==array "
        "with the frame's labels on both axes, unit diagonal for LinearRegression, input bytes unchanged. "
        "r2-comparable: positive targets/predictions x (tr, inv_tr) in {None,'log','exp',callable (numpy.sqrt, numpy.log, a lambda, user functions that are merely NAMED log / exp)}^2 x optional weights x one vector / a column / 2-3 outputs with multioutput in {uniform_average, raw_values, variance_weighted}; oracle "
        "r2_score(f(y), g(p)) with numpy.log/exp written out; both None must raise ValueError. Non-trivial: >=2 columns and draws>=2; "
        "non-identity pair. Distinct = distinct case JSON.")
ASSUMPTIONS = ["numeric tables only; at least 4 rows (the function splits the rows in two halves)"]
TOLERANCES = {"range / ordering": "1e-12", "unit diagonal": "1e-9", "frame == array": "1e-9 (scale() sums a frame and an array in different memory orders: 1 ulp differences)", "r2": "1e-12 relative"}

_cor = loader.module("metrics.correlations")
_sc = loader.module("metrics.scoring_metrics")


def _model(name):
    if name == "linear":
        return LinearRegression()
    if name == "tree":
        return DecisionTreeRegressor(max_depth=3, random_state=0)
    if name == "sticky-warm":
        return StickyRegressor(warm_start=True)
    if name == "sticky":
        return StickyRegressor(warm_start=False)
    return DummyRegressor()


def check_correlations(case):
    dt = np.int64 if case["dtype"] == "int" else np.float64
    A = np.array(case["table"], dtype=dt)
    n, k = A.shape
    cols = case["columns"][:k]
    # the frame's row index: default, a permutation of 0..n-1 (a sorted or shuffled frame), repeated labels (a concat), strings
    ik = case.get("index", "default")
    if ik == "permuted":
        index = np.argsort(np.array(case["index_keys"][:n]), kind="stable")[::-1].copy()
    elif ik == "repeated":
        index = np.arange(n) // 2
    elif ik == "strings":
        index = ["r%d" % (n - i) for i in range(n)]
    else:
        index = None
    df = pandas.DataFrame(A.copy(), columns=cols, index=index)
    for j in case.get("object_columns", []):
        # numbers held in a column of dtype object (what read_csv with mixed markers or a concat of heterogeneous frames leaves behind)
        df[cols[j % k]] = df[cols[j % k]].astype(object)
    facts = dict(k=k, n=n, model=case["model"], draws=case["draws"], minmax=case["minmax"], dtype=case["dtype"], index=ik)
    A0 = A.copy()
    df0 = df.copy(deep=True)

    def call(data):
        np.random.seed(case["seed"])
        return _cor.non_linear_correlations(data, _model(case["model"]), draws=case["draws"], minmax=case["minmax"])

    # columns whose training half is constant in some draw although the column is not (halves re-drawn with the same seed)
    np.random.seed(case["seed"])
    learnable = np.ones(k, dtype=bool)
    for _ in range(case["draws"]):
        tr_idx, _te = train_test_split(np.arange(n), test_size=0.5)
        for j in range(k):
            col = A[:, j]
            if len(set(col.tolist())) > 1 and len(set(col[tr_idx].tolist())) < 2:
                learnable[j] = False
    ra = call(A)
    rf = call(df)
    require(np.array_equal(A, A0), "input-modified:array", "", facts)
    require(df.equals(df0) and list(df.columns) == list(df0.columns) and list(df.index) == list(df0.index), "input-modified:frame", "", facts)
    if case["model"] == "sticky-warm":
        # a model built with warm_start=True (a second fit of the same object keeps what the first learnt): every coefficient comes from
        # its own freshly cloned model, so the flag changes nothing
        np.random.seed(case["seed"])
        cold = _cor.non_linear_correlations(A, _model("sticky"), draws=case["draws"], minmax=case["minmax"])
        for u, v in zip(ra if isinstance(ra, tuple) else (ra,), cold if isinstance(cold, tuple) else (cold,)):
            require(np.array_equal(np.asarray(u, dtype=np.float64), np.asarray(v, dtype=np.float64), equal_nan=True), "warm-start-model:differs",
                    "a warm_start=True model gives other correlations than the same model without the flag: %r vs %r" % (np.asarray(u).tolist(), np.asarray(v).tolist()), facts)
    if case["minmax"]:
        require(isinstance(ra, tuple) and len(ra) == 3 and isinstance(rf, tuple) and len(rf) == 3, "minmax:not-three", "", facts)
        names = ("cor", "min", "max")
    else:
        ra, rf = (ra,), (rf,)
        names = ("cor",)
    mats = {}
    for name, a, f in zip(names, ra, rf):
        a = np.asarray(a, dtype=np.float64)
        require(a.shape == (k, k), "shape:array:" + name, "%r for %d columns" % (a.shape, k), facts)
        require(isinstance(f, pandas.DataFrame), "frame:not-a-frame:" + name, str(type(f)), facts)
        require(f.shape == (k, k), "shape:frame:" + name, "%r for %d columns" % (f.shape, k), facts)
        require(list(f.columns) == list(cols) and list(f.index) == list(cols), "frame:labels:" + name,
                "columns %r index %r expected %r" % (list(f.columns), list(f.index), list(cols)), facts)
        fv = np.asarray(f.values, dtype=np.float64)
        require(bool(np.all(np.isfinite(a))) and bool(np.all(np.isfinite(fv))), "not-finite:" + name, "", facts)
        require(bool(np.all(a >= -1e-12)) and bool(np.all(a <= 1 + 1e-12)), "range:" + name, "min %r max %r" % (float(a.min()), float(a.max())), facts)
        if case["model"] not in ("tree",):
            # a tree is a discontinuous learner: the 1-ulp difference between scale(frame) and scale(array) can flip a
            # tie between two equally good splits, so equality is only demanded of the continuous learners - and, for the linear
            # model, only of rows whose predictor column is not constant on a training half (a least-squares slope on a constant
            # column is 0/0 at rounding level: 1 ulp in the scaled data changes it arbitrarily)
            rows_ok = learnable if case["model"] in ("linear", "sticky-warm", "sticky") else np.ones(k, dtype=bool)
            dd = np.abs(a - fv)[rows_ok]
            require(bool(np.all(dd <= 1e-9)), "frame!=array:" + name, "max abs difference %r" % (float(dd.max()) if dd.size else 0.0), facts)
        mats[name] = a
    if case["minmax"]:
        require(bool(np.all(mats["min"] <= mats["cor"] + 1e-12)) and bool(np.all(mats["cor"] <= mats["max"] + 1e-12)), "minmax:order",
                "not min <= mean <= max entrywise", facts)
        if case["draws"] == 1:
            require(np.allclose(mats["min"], mats["max"], atol=1e-12) and np.allclose(mats["min"], mats["cor"], atol=1e-12), "minmax:single-draw", "", facts)
    if case.get("translate") and case["model"] in ("linear", "dummy") and A.dtype == np.float64 and k >= 2:
        # the coefficients are computed on standardised columns: moving one column by a large constant (a timestamp, an identifier
        # offset; 2**27 keeps the dyadic values exact) changes nothing beyond rounding - learnable rows only, as above
        A2 = A.copy()
        A2[:, case["translate"] % k] += float(2 ** 27)
        r2 = call(A2)
        for name, a2 in zip(names, r2 if isinstance(r2, tuple) else (r2,)):
            a2 = np.asarray(a2, dtype=np.float64)
            dd = np.abs(a2 - mats[name])[learnable][:, learnable]
            require(bool(np.all(dd <= 1e-6)), "translation:" + name,
                    "adding 2**27 to column %d moves the matrix by %r" % (case["translate"] % k, float(dd.max()) if dd.size else 0.0), facts)
    diag_checked = 0
    if case["model"] == "linear":
        # "a model able to learn the identity": LinearRegression learns x -> x from a training half iff that half is
        # not constant (or the whole column is).  The halves are re-drawn here with the same seed.
        dg = np.diag(mats["cor"])
        diag_checked = int(learnable.sum())
        require(bool(np.all(np.abs(dg[learnable] - 1) <= 1e-9)), "diagonal:not-1", "diagonal %r (identity learnable: %r)" % (dg.tolist(), learnable.tolist()), facts)
    const = bool(np.any(A.std(axis=0) == 0))
    return Outcome([case["model"], "k=%d" % k, "draws=%d" % case["draws"] if case["draws"] <= 4 else "draws>=11", "minmax" if case["minmax"] else "single", case["dtype"],
                    "const-col" if const else "no-const-col", "index:" + ik, "object-column" if case.get("object_columns") else "numeric-dtypes"], k >= 2 and case["draws"] >= 2)


@st.composite
def _cor_cases(draw, tier="quick"):
    n = draw(st.integers(4, 24 if tier == "quick" else 40))
    k = draw(st.integers(1, 4 if tier == "quick" else 5))
    dtype = draw(st.sampled_from(["float", "float", "int"]))
    cell = st.integers(-40, 40) if dtype == "int" else st.integers(-80, 80).map(lambda v: v / 8.0)
    colsd = []
    for j in range(k):
        kind = draw(st.sampled_from(["free", "free", "free", "const", "copy"]))
        if kind == "const":
            c = draw(cell)
            colsd.append([c] * n)
        elif kind == "copy" and colsd:
            src = colsd[draw(st.integers(0, len(colsd) - 1))]
            a = draw(st.sampled_from([1, -1, 2]))
            colsd.append([a * v for v in src])
        else:
            colsd.append(draw(st.lists(cell, min_size=n, max_size=n)))
    table = [[colsd[j][i] for j in range(k)] for i in range(n)]
    labels = draw(st.lists(st.sampled_from(["a", "b", "X1", "X2", "col 3", "é", "y", "z9"]), min_size=5, max_size=5, unique=True))
    if draw(st.booleans()):
        labels = draw(st.lists(st.integers(0, 20), min_size=5, max_size=5, unique=True))
    return dict(table=table, columns=labels, dtype=dtype, model=draw(st.sampled_from(["linear", "linear", "tree", "dummy", "sticky-warm"])),
                draws=draw(st.integers(1, 4)) if draw(st.integers(0, 11)) else draw(st.sampled_from([12, 30, 60])), minmax=draw(st.booleans()), seed=draw(st.integers(0, 2**31 - 2)),
                index=draw(st.sampled_from(["default", "default", "permuted", "repeated", "strings"])), translate=draw(st.sampled_from([0, 0, 1, 2, 3])),
                index_keys=draw(st.lists(st.integers(0, 10**6), min_size=40, max_size=40)),
                object_columns=draw(st.lists(st.integers(0, 4), min_size=1, max_size=2)) if draw(st.integers(0, 4)) == 0 else [])


# ------------------------------------------------------------------------ r2_score_comparable
def _user_log():
    def log(x):                     # a user's helper that happens to be called `log`: it is NOT numpy.log
        return np.log1p(x)
    return log


def _user_exp():
    def exp(x):
        return np.expm1(x) * 0.5
    return exp


def _maxnorm(v):
    v = np.asarray(v, dtype=np.float64)            # looks at the whole vector: f(y) and f(p) are two different normalisations
    return v / v.max()


def _fn(name):
    if name is None or name in ("log", "exp"):
        return name
    if name == "maxnorm":
        return _maxnorm
    if name == "sqrt":
        return np.sqrt
    if name == "numpy.log":
        return np.log
    if name == "user-log":
        return _user_log()
    if name == "user-exp":
        return _user_exp()
    return lambda x: x * 2.0 + 1.0


def _apply(name, v):
    if name is None:
        return v
    if name == "log":
        return np.log(v)
    if name == "exp":
        return np.exp(v)
    if name == "sqrt":
        return np.sqrt(v)
    if name == "numpy.log":
        return np.log(v)
    if name == "user-log":
        return np.log1p(v)
    if name == "user-exp":
        return np.expm1(v) * 0.5
    if name == "maxnorm":
        return _maxnorm(v)
    return v * 2.0 + 1.0


def check_r2(case):
    y = np.array(case["y"], dtype=np.float64)
    p = np.array(case["p"], dtype=np.float64)
    k = case.get("outputs", 0)
    if k:
        # several outputs: (n, k) targets and predictions (k == 1: a column); multioutput says how the k scores are combined
        n_ = len(y) // k
        y, p = y[:n_ * k].reshape(n_, k), p[:n_ * k].reshape(n_, k)
    mo = case.get("multioutput", "uniform_average")
    w = None if case["w"] is None else np.array(case["w"], dtype=np.float64)[:len(y)]
    tr, inv = case["tr"], case["inv_tr"]
    facts = dict(tr=tr, inv_tr=inv, weights=w is not None, outputs=k, multioutput=mo)
    y0, p0 = y.copy(), p.copy()
    if tr is None and inv is None:
        try:
            _sc.r2_score_comparable(y, p, tr=None, inv_tr=None, sample_weight=w)
        except ValueError:
            return Outcome(["both-none-refused"], False)
        raise Violation("r2:both-none-accepted", "tr=None and inv_tr=None did not raise", facts)
    if mo == "uniform_average":
        got = _sc.r2_score_comparable(y, p, tr=_fn(tr), inv_tr=_fn(inv), sample_weight=w)
        ref = r2_score(_apply(tr, y), _apply(inv, p), sample_weight=w)
    else:
        got = _sc.r2_score_comparable(y, p, tr=_fn(tr), inv_tr=_fn(inv), sample_weight=w, multioutput=mo)
        ref = r2_score(_apply(tr, y), _apply(inv, p), sample_weight=w, multioutput=mo)
    require(np.array_equal(y, y0) and np.array_equal(p, p0), "input-modified", "", facts)
    got_a, ref_a = np.asarray(got, dtype=np.float64), np.asarray(ref, dtype=np.float64)
    require(got_a.shape == ref_a.shape, "r2:shape", "r2_score_comparable gives shape %r, r2_score(f(y), g(p)) %r (multioutput=%r, %d outputs)" % (got_a.shape, ref_a.shape, mo, k), facts)
    require(bool(np.all(np.abs(got_a - ref_a) <= 1e-12 * (1 + np.abs(ref_a)))), "r2:differs", "r2_score_comparable=%r, r2_score(f(y), g(p))=%r for tr=%r inv_tr=%r" % (got, ref, tr, inv), facts)
    # the caller re-uses its target array for the next fold (same object, other values, positive so that every transformation applies):
    # the score follows the values
    y[...] = y0[::-1] * 1.5 + 0.25
    p2 = np.ascontiguousarray(p0[::-1])
    kw2 = {} if mo == "uniform_average" else dict(multioutput=mo)
    got2 = np.asarray(_sc.r2_score_comparable(y, p2, tr=_fn(tr), inv_tr=_fn(inv), sample_weight=w, **kw2), dtype=np.float64)
    ref2 = np.asarray(r2_score(_apply(tr, y), _apply(inv, p2), sample_weight=w, **kw2), dtype=np.float64)
    require(got2.shape == ref2.shape and bool(np.all(np.abs(got2 - ref2) <= 1e-12 * (1 + np.abs(ref2)))), "r2:differs:same-target-object-refilled",
            "second call with the same target array holding other values: r2_score_comparable=%r, r2_score(f(y), g(p))=%r" % (got2.tolist(), ref2.tolist()), facts)
    return Outcome(["tr=%s" % tr, "inv_tr=%s" % inv, "weights" if w is not None else "no-weights", "outputs=%d" % k, "multioutput=" + mo], True)


@st.composite
def _r2_cases(draw, tier="quick"):
    k = draw(st.sampled_from([0, 0, 1, 2, 3]))
    n = draw(st.integers(3, 20)) * max(k, 1)
    pos = st.integers(1, 400).map(lambda v: v / 16.0)
    y = draw(st.lists(pos, min_size=n, max_size=n))
    if len(set(y)) == 1:
        y[0] = y[0] + 1.0
    names = [None, "log", "exp", "sqrt", "affine", "numpy.log", "user-log", "user-exp", "maxnorm", "maxnorm"]
    return dict(y=y, p=draw(st.lists(pos, min_size=n, max_size=n)), tr=draw(st.sampled_from(names)), inv_tr=draw(st.sampled_from(names)),
                w=draw(st.one_of(st.none(), st.lists(st.integers(1, 16).map(lambda v: v / 4.0), min_size=n, max_size=n))),
                outputs=k, multioutput=draw(st.sampled_from(["uniform_average", "uniform_average", "raw_values", "variance_weighted"])))


CLAUSES = [
    Clause("correlations", check_correlations, strategy=lambda tier: _cor_cases(tier), quick=2000, thorough=24000, quick_shards=16,
           doc="non_linear_correlations on a frame and on its array: shape, range, ordering, labels, diagonal, purity"),
    Clause("r2-comparable", check_r2, strategy=lambda tier: _r2_cases(tier), quick=2000, thorough=30000, quick_shards=4,
           doc="r2_score_comparable(y,p,tr=f,inv_tr=g) == r2_score(f(y), g(p)); both None refused"),
]
