"""C03 - a fitted model depends only on parameters, the last training set and seeds."""
from vf import loader
from vf.core import Clause, Outcome, Violation, require
from vf import registry as R

import numpy as np
from hypothesis import strategies as st
from sklearn.base import clone

PROPERTY = "C03"
RULE = ("refit:<class>: for every fit-able registry class Hypothesis draws a configuration, a pool of 2-3 data sets with different sizes, "
        "dimensions, label sets or vocabularies, and a history of fits (data set index, NumPy global seed); outputs are requested between "
        "fits so that caches exist; in a third of the cases the instance is also given a second configuration (set_params with all top-level parameters) between fits. Invariant after every fit: the instance's fingerprint (public outputs on a probe batch + documented "
        "fitted attributes) equals that of clone(instance).fit(same data) under the same seed (exact, one thread), and a second fresh "
        "clone fitted under the same seed agrees too. random-state: KMeansL1L2 with an int random_state (documented as making it "
        "deterministic) gives the same model under two different global seeds; the same comparison for PermutationReciprocalTransformer, "
        "PiecewiseClassifier and ConstraintKMeans is reported as a label only. Non-trivial: a history with >=2 fits on data sets that "
        "differ in n, d or labels; randomness actually consumed (clause 3). Distinct by case JSON.")
ASSUMPTIONS = ["one BLAS/OpenMP thread; exact equality is demanded because both sides run the same arithmetic",
               "ApproximateNMFPredictor is compared at 1e-9 (coordinate descent order is deterministic but the SVD sign is normalised by scikit-learn)"]
TOLERANCES = {"fingerprints": "exact (NMF: 1e-9)"}


def _fit(entry, est, data, seed):
    X, y, w = R.materialize(data)
    np.random.seed(seed)
    entry.fit(est, X, y, w)
    return X, y


def _fp(entry, est, data, X, y, seed):
    np.random.seed(seed + 7)
    return R.fingerprint(entry, est, entry.probe(data, X, y))


def check_refit(case):
    name = case["cls"]
    entry = R.ENTRIES[name]
    facts = dict(cls=name)
    inst = R.build(case["spec"])
    prev = None
    differing = False
    current = 0
    reconfigured = False
    for step, h in enumerate(case["history"]):
        i, seed = h[0], h[1]
        want = h[2] if len(h) > 2 and case.get("spec2") is not None else 0
        if want != current:
            # the instance is given another configuration between two fits (what a grid search does with one object): the clone it is
            # compared with has the new parameters, so anything that survives from the earlier configuration's fit shows
            inst.set_params(**R.build(case["spec2"] if want == 1 else case["spec"]).get_params(deep=False))
            current = want
            reconfigured = True
        data = case["datasets"][i]
        X, y = _fit(entry, inst, data, seed)
        got = _fp(entry, inst, data, X, y, seed)
        fresh = clone(inst)
        Xf, yf = _fit(entry, fresh, data, seed)
        ref = _fp(entry, fresh, data, Xf, yf, seed)
        d = R.same_fingerprint(got, ref, exact=entry.exact)
        f2 = dict(facts, step=step, refit=step > 0, reconfigured=reconfigured)
        require(d is None, "refit:differs-from-clone-fit" if step > 0 else "fit:differs-from-clone-fit",
                "after fitting data set %d (step %d of the history) the instance differs from a fresh clone fitted on it: %s" % (i, step, d), f2)
        fresh2 = clone(inst)
        X2, y2 = _fit(entry, fresh2, data, seed)
        d2 = R.same_fingerprint(ref, _fp(entry, fresh2, data, X2, y2, seed), exact=entry.exact)
        require(d2 is None, "same-seed:two-fits-differ", "two fresh clones fitted on the same data under the same NumPy seed differ: %s" % d2, f2)
        if prev is not None and prev != i:
            differing = True
        prev = i
    nfits = len(case["history"])
    return Outcome([name, "fits=%d" % min(nfits, 4), "different-datasets" if differing else "same-dataset", "reconfigured-between-fits" if reconfigured else "one-configuration"],
                   nfits >= 2 and (differing or reconfigured))


@st.composite
def _refit_cases(draw, name, tier="quick"):
    entry = R.ENTRIES[name]
    flavour = draw(st.integers(0, 11))
    spec = R.spec_for(name, draw, flavour)
    nd = draw(st.integers(2, 3))
    datasets = [entry.data(draw) for _ in range(nd)]
    nh = draw(st.integers(2, 4 if tier == "quick" else 6))
    spec2 = R.spec_for(name, draw, flavour) if draw(st.integers(0, 2)) == 0 else None
    history = [[draw(st.integers(0, nd - 1)), draw(st.integers(0, 2**31 - 10)), draw(st.integers(0, 1))] for _ in range(nh)]
    if len(set(h[0] for h in history)) == 1:
        history[-1][0] = (history[-1][0] + 1) % nd
    return dict(cls=name, spec=spec, spec2=spec2, datasets=datasets, history=history)


def check_random_state(case):
    name = case["cls"]
    entry = R.ENTRIES[name]
    facts = dict(cls=name)
    data = case["data"]
    outs = []
    for seed in case["seeds"]:
        est = R.build(case["spec"])
        X, y = _fit(entry, est, data, seed)
        outs.append(_fp(entry, est, data, X, y, 12345))
    d = R.same_fingerprint(outs[0], outs[1], exact=entry.exact)
    asserted = name == "KMeansL1L2"
    if asserted:
        require(d is None, "random_state:depends-on-global-seed", "int random_state=%r but two global seeds give different models: %s" % (
            case["spec"]["params"].get("random_state"), d), facts)
    return Outcome([name, "asserted" if asserted else "reported-only", "independent-of-global-seed" if d is None else "depends-on-global-seed"], True)


@st.composite
def _rs_cases(draw, tier="quick"):
    name = draw(st.sampled_from(["KMeansL1L2", "KMeansL1L2", "KMeansL1L2", "PermutationReciprocalTransformer", "PiecewiseClassifier", "ConstraintKMeans"]))
    entry = R.ENTRIES[name]
    spec = R.spec_for(name, draw, 0)
    spec["params"]["random_state"] = draw(st.integers(0, 50))
    return dict(cls=name, spec=spec, data=entry.data(draw), seeds=[draw(st.integers(0, 10**6)), draw(st.integers(10**6 + 1, 2 * 10**6))])


def _clause(name):
    heavy = name in ("ConstraintKMeans", "ApproximateNMFPredictor", "DecisionTreeLogisticRegression", "ClassifierAfterKMeans", "PiecewiseClassifier", "PiecewiseRegressor")
    return Clause("refit:" + name, check_refit, strategy=lambda tier, n=name: _refit_cases(n, tier), quick=60 if heavy else 100,
                  thorough=800 if heavy else 1500, quick_shards=1, thorough_shards=2, doc="fit histories on %s: instance == clone-fit under one seed" % name)


CLAUSES = [_clause(n) for n in sorted(R.ENTRIES)] + [
    Clause("random-state", check_random_state, strategy=lambda tier: _rs_cases(tier), quick=300, thorough=5000, quick_shards=2,
           doc="int random_state documented as deterministic (KMeansL1L2) => independent of the global seed; reported for three other classes"),
]
