"""C03 - a fitted model depends only on parameters, the last training set and seeds."""
from vf import loader
from vf.core import Clause, Outcome, Violation, require, round_trip, COPIES
from vf import registry as R

import numpy as np
from hypothesis import strategies as st
from sklearn.base import clone

PROPERTY = "C03"
RULE = ("refit:<class>: for every fit-able registry class Hypothesis draws a configuration, a pool of 2-3 data sets with different sizes, "
        "dimensions, label sets or vocabularies, and a history of fits (data set index, NumPy global seed); outputs are requested between "
        "fits so that caches exist; in a third of the cases the instance is also given a second configuration (set_params with all top-level parameters) between fits. Invariant after every fit: the instance's fingerprint (public outputs on a probe batch + documented "
        "fitted attributes) equals that of clone(instance).fit(same data) under the same seed (exact, one thread), and a second fresh "
        "clone fitted under the same seed agrees too; then another clone is fitted on another data set of the pool under another seed and the instance must still answer as before. random-state: KMeansL1L2 with an int random_state (documented as making it "
        "deterministic) gives the same model under two different global seeds; the same comparison for PermutationReciprocalTransformer, "
        "PiecewiseClassifier and ConstraintKMeans is reported as a label only. interpreters: 3-5 fits (string-labelled permutations and classifiers, frames of categories, "
        "corpora, any registry class) are run in two fresh interpreters started with different PYTHONHASHSEED values and must give bit-identical fingerprints. Non-trivial: a history with >=2 fits on data sets that "
        "differ in n, d or labels; randomness actually consumed (clause 3). Distinct by case JSON.")
ASSUMPTIONS = ["one BLAS/OpenMP thread; exact equality is demanded because both sides run the same arithmetic",
               "ApproximateNMFPredictor is compared at 1e-9 (coordinate descent order is deterministic but the SVD sign is normalised by scikit-learn)"]
TOLERANCES = {"fingerprints": "exact (NMF: 1e-9)"}


FRAME_OK = ("KMeansL1L2",)          # classes whose fit takes a DataFrame through scikit-learn's own validation (ConstraintKMeans refuses one)


SHARING_SAFE = ("DecisionTreeLogisticRegression", "PiecewiseRegressor", "PiecewiseClassifier", "IntervalRegressor", "ClassifierAfterKMeans")


def _fit(entry, est, data, seed, as_frame=False, wfilter=None):
    if wfilter:
        # the caller's warning filters are not an input of the model: the fit runs with warnings shown ("always" / "default") while the
        # fits it is compared with run with the harness's own filter ("ignore"); nothing is printed
        import warnings
        with warnings.catch_warnings():
            warnings.simplefilter(wfilter)
            warnings.showwarning = lambda *a, **k: None
            return _fit(entry, est, data, seed, as_frame)
    X, y, w = R.materialize(data)
    Xin = X
    if as_frame and entry.name in FRAME_OK and isinstance(X, np.ndarray) and X.ndim == 2:
        import pandas
        Xin = pandas.DataFrame(X, columns=["f%d" % j for j in range(X.shape[1])])       # named columns: scikit-learn records them
    np.random.seed(seed)
    entry.fit(est, Xin, y, w)
    return X, y


def _fp(entry, est, data, X, y, seed):
    np.random.seed(seed + 7)
    fp = R.fingerprint(entry, est, entry.probe(data, X, y))
    # what scikit-learn remembers of the training table's columns is part of the model: it decides what later calls accept
    fp["attr:feature-bookkeeping"] = [repr(getattr(est, "n_features_in_", None)), [str(c) for c in getattr(est, "feature_names_in_", [])]]
    return fp


def check_refit(case):
    name = case["cls"]
    entry = R.ENTRIES[name]
    facts = dict(cls=name)
    inst = R.build(case["spec"])
    prev = None
    differing = False
    current = 0
    reconfigured = False
    copied = False
    for step, h in enumerate(case["history"]):
        i, seed = h[0], h[1]
        want = h[2] if len(h) > 2 and case.get("spec2") is not None else 0
        if want != current:
            # the instance is given another configuration between two fits (what a grid search does with one object): the clone it is
            # compared with has the new parameters, so anything that survives from the earlier configuration's fit shows
            inst.set_params(**R.build(case["spec2"] if want == 1 else case["spec"]).get_params(deep=False))
            current = want
            reconfigured = True
        data = case["datasets"][i]
        fr = bool(h[3]) if len(h) > 3 else False
        how = h[4] if len(h) > 4 else None
        if how and step > 0:
            # the fitted instance goes through persistence / a deep copy and the COPY is trained next: it is "the instance" from here on
            # (that pickling works at all is C04's business: a refusal leaves the history as it is)
            try:
                inst = round_trip(inst, how)
                copied = True
            except Exception:  # noqa: BLE001
                pass
        X, y = _fit(entry, inst, data, seed, fr, h[5] if len(h) > 5 else None)
        got = _fp(entry, inst, data, X, y, seed)
        fresh = clone(inst)
        Xf, yf = _fit(entry, fresh, data, seed, fr)
        ref = _fp(entry, fresh, data, Xf, yf, seed)
        d = R.same_fingerprint(got, ref, exact=entry.exact)
        f2 = dict(facts, step=step, refit=step > 0, reconfigured=reconfigured)
        require(d is None, "refit:differs-from-clone-fit" if step > 0 else "fit:differs-from-clone-fit",
                "after fitting data set %d (step %d of the history) the instance differs from a fresh clone fitted on it: %s" % (i, step, d), f2)
        fresh2 = clone(inst)
        X2, y2 = _fit(entry, fresh2, data, seed, fr)
        d2 = R.same_fingerprint(ref, _fp(entry, fresh2, data, X2, y2, seed), exact=entry.exact)
        require(d2 is None, "same-seed:two-fits-differ", "two fresh clones fitted on the same data under the same NumPy seed differ: %s" % d2, f2)
        # ... and an object built afresh from the configuration in force (a clone taken now would inherit whatever an earlier fit wrote into
        # the hyper-parameters)
        built = R.build(case["spec2"] if current == 1 else case["spec"])
        Xb, yb = _fit(entry, built, data, seed, fr)
        db = R.same_fingerprint(got, _fp(entry, built, data, Xb, yb, seed), exact=entry.exact)
        require(db is None, "refit:differs-from-newly-built" if step > 0 else "fit:differs-from-newly-built",
                "after the history the instance differs from an object newly built with the same configuration and fitted on the same data: %s" % db, f2)
        # trained through fit_transform (the entry point a Pipeline uses for every step but the last): the same model as through fit.
        # (Whether the ARRAY fit_transform returns equals transform(X) is a per-class statement - C06, C14, C15, C19 check it where their
        # property says what transform returns; it is not part of this one: ConstraintKMeans.transform returns squared distances while the
        # inherited fit_transform returns distances, see BUILDLOG.)
        if step == 0 and "transform" in entry.methods and entry.kind != "target" and hasattr(inst, "fit_transform"):
            ft = R.build(case["spec2"] if current == 1 else case["spec"])
            Xt, yt, wt = R.materialize(data)
            framed = False
            if fr and entry.name in FRAME_OK and isinstance(Xt, np.ndarray) and Xt.ndim == 2:
                import pandas
                Xt = pandas.DataFrame(Xt, columns=["f%d" % j for j in range(Xt.shape[1])])
                framed = True
            np.random.seed(seed)
            try:
                if entry.kind in ("cluster", "nmf", "text", "frame"):
                    out_ft = ft.fit_transform(entry._with_columns(ft, Xt) if hasattr(entry, "_with_columns") else Xt)
                elif wt is not None and entry.uses_weights:
                    out_ft = ft.fit_transform(Xt, yt, sample_weight=wt)
                else:
                    out_ft = ft.fit_transform(Xt, yt)
            except Exception as e:  # noqa: BLE001
                from vf.core import repo_frame
                if repo_frame(e) is None:
                    out_ft = None          # refused by scikit-learn itself (a transformer without y, ...): not this statement's business
                else:
                    raise
            if out_ft is not None:
                dft = R.same_fingerprint(got, _fp(entry, ft, data, np.asarray(Xt) if framed else Xt, yt, seed), exact=entry.exact)
                require(dft is None, "fit_transform:other-model-than-fit", "an object trained through fit_transform differs from one trained through fit on the same data: %s" % dft, f2)
        # another instance of the same class fitted on OTHER data under another seed (two models alive in one process): what this
        # instance answers is its own business - module- or class-level state shared between instances shows here
        j = (i + 1) % len(case["datasets"])
        other = clone(inst)
        try:
            _fit(entry, other, case["datasets"][j], seed + 1)
            _fp(entry, other, case["datasets"][j], *R.materialize(case["datasets"][j])[:2], seed + 1)
        except Exception:  # noqa: BLE001 - the other data set may not suit this configuration: only the effect on `inst` matters
            pass
        if name in SHARING_SAFE:
            # ... and a sibling built around the SAME parameter objects (one base estimator instance handed to two wrappers, as in a
            # loop over data sets): these classes document that they work on clones of what they are given
            try:
                sib = type(inst)(**inst.get_params(deep=False))
                _fit(entry, sib, case["datasets"][j], seed + 2)
            except Exception:  # noqa: BLE001
                pass
        again = _fp(entry, inst, data, X, y, seed)
        d3 = R.same_fingerprint(got, again, exact=entry.exact)
        require(d3 is None, "instance-disturbed-by-another-instance", "after ANOTHER instance of the class was fitted on other data, this fitted instance answers differently: %s" % d3, f2)
        if prev is not None and prev != i:
            differing = True
        prev = i
    nfits = len(case["history"])
    return Outcome([name, "fits=%d" % min(nfits, 4), "different-datasets" if differing else "same-dataset", "reconfigured-between-fits" if reconfigured else "one-configuration",
                    "copied-between-fits" if copied else "same-object-throughout"],
                   nfits >= 2 and (differing or reconfigured))


@st.composite
def _refit_cases(draw, name, tier="quick"):
    entry = R.ENTRIES[name]
    flavour = draw(st.integers(0, 11))
    spec = R.spec_for(name, draw, flavour)
    nd = draw(st.integers(2, 3))
    datasets = [entry.data(draw) for _ in range(nd)]
    nh = draw(st.integers(2, 4 if tier == "quick" else 6))
    spec2 = R.spec_for(name, draw, flavour) if draw(st.integers(0, 2)) == 0 else None
    history = [[draw(st.integers(0, nd - 1)), draw(st.integers(0, 2**31 - 10)), draw(st.integers(0, 1)), draw(st.booleans()), draw(st.sampled_from(COPIES)), draw(st.sampled_from([None, None, "always", "default"]))] for _ in range(nh)]
    if len(set(h[0] for h in history)) == 1:
        history[-1][0] = (history[-1][0] + 1) % nd
    return dict(cls=name, spec=spec, spec2=spec2, datasets=datasets, history=history)


def check_random_state(case):
    name = case["cls"]
    entry = R.ENTRIES[name]
    facts = dict(cls=name)
    data = case["data"]
    outs = []
    for seed in case["seeds"]:
        est = R.build(case["spec"])
        X, y = _fit(entry, est, data, seed)
        outs.append(_fp(entry, est, data, X, y, 12345))
    d = R.same_fingerprint(outs[0], outs[1], exact=entry.exact)
    asserted = name == "KMeansL1L2"
    if asserted:
        require(d is None, "random_state:depends-on-global-seed", "int random_state=%r but two global seeds give different models: %s" % (
            case["spec"]["params"].get("random_state"), d), facts)
    return Outcome([name, "asserted" if asserted else "reported-only", "independent-of-global-seed" if d is None else "depends-on-global-seed"], True)


@st.composite
def _rs_cases(draw, tier="quick"):
    name = draw(st.sampled_from(["KMeansL1L2", "KMeansL1L2", "KMeansL1L2", "PermutationReciprocalTransformer", "PiecewiseClassifier", "ConstraintKMeans"]))
    entry = R.ENTRIES[name]
    spec = R.spec_for(name, draw, 0)
    spec["params"]["random_state"] = draw(st.integers(0, 50))
    return dict(cls=name, spec=spec, data=entry.data(draw), seeds=[draw(st.integers(0, 10**6)), draw(st.integers(10**6 + 1, 2 * 10**6))])


# ------------------------------------------------------------------------------- two interpreters
WORDS = ["a", "no", "yes", "b", "abc", "positive", "negative", "0", "10", "x y", "N", "maybe not", "red", "green", "blue", "é"]


def _interp(subs, salt):
    import json
    import os
    import subprocess
    import sys
    env = dict(os.environ, PYTHONHASHSEED=str(salt))
    root = os.path.dirname(os.path.dirname(os.path.dirname(os.path.abspath(__file__))))
    env["PYTHONPATH"] = root + os.pathsep + env.get("PYTHONPATH", "")
    r = subprocess.run([sys.executable, "-m", "vf.hashworker"], input=json.dumps(subs), capture_output=True, text=True, env=env, cwd=root)
    if r.returncode != 0:
        raise RuntimeError("hashworker failed (salt %s): %s" % (salt, r.stderr[-800:]))
    doc = json.loads(r.stdout)
    assert doc["hashseed"] == str(salt)
    return doc["results"]


def check_interpreters(case):
    """the same fits in two fresh interpreters whose string-hash salts differ: same data, parameters and NumPy seed => same models"""
    subs = case["subs"]
    a = _interp(subs, case["salts"][0])
    b = _interp(subs, case["salts"][1])
    labels = set()
    for sub, ra, rb in zip(subs, a, b):
        what = sub.get("cls", sub["kind"])
        labels.add(what)
        if ra.startswith("raised:") or rb.startswith("raised:"):
            ta, tb = ra.split(":")[1] if ra.startswith("raised:") else "ok", rb.split(":")[1] if rb.startswith("raised:") else "ok"
            require(ta == tb, "interpreters:one-raises", "%s: PYTHONHASHSEED=%s -> %s, =%s -> %s" % (what, case["salts"][0], ra[:120], case["salts"][1], rb[:120]), dict(what=what))
            continue
        if ra != rb:
            import json
            da, db = json.loads(ra), json.loads(rb)
            where = "?"
            if isinstance(da, list) and isinstance(db, list):
                for xa, xb in zip(da, db):
                    if xa != xb:
                        where = str(xa[0] if isinstance(xa, list) and xa else xa)[:60]
                        break
            raise Violation("interpreters:models-differ:" + what,
                            "%s fitted in two interpreters (PYTHONHASHSEED=%s and %s) on the same data with the same parameters and NumPy seed differs at %r" % (
                                what, case["salts"][0], case["salts"][1], where), dict(what=what, label_kind=sub.get("label_kind")))
    return Outcome(sorted(labels) + ["subcases=%d" % len(subs)], True)


@st.composite
def _interp_cases(draw, tier="quick"):
    subs = []
    for _ in range(draw(st.integers(3, 5))):
        kind = draw(st.sampled_from(["permutation", "permutation", "classifier", "registry", "registry"]))
        if kind == "registry":
            name = draw(st.sampled_from(["CategoriesToIntegers", "TraceableCountVectorizer", "TraceableTfidfVectorizer", "CategoriesToIntegers"] + sorted(R.ENTRIES)))
            entry = R.ENTRIES[name]
            subs.append(dict(kind="registry", cls=name, spec=R.spec_for(name, draw, draw(st.integers(0, 11))), data=entry.data(draw), seed=draw(st.integers(0, 2**31 - 10))))
            continue
        k = draw(st.integers(2, 8))
        words = draw(st.lists(st.sampled_from(WORDS), min_size=k, max_size=k, unique=True))
        n = draw(st.integers(k, 16))
        z = [draw(st.integers(0, k - 1)) for _ in range(n)]
        for i in range(k):
            z[i] = i
        z = list(draw(st.permutations(z)))
        sub = dict(kind=kind, label_kind=draw(st.sampled_from(["str-object", "str-fixed"])), words=words, z=z,
                   random_state=draw(st.one_of(st.none(), st.integers(0, 50))), seed=draw(st.integers(0, 2**31 - 10)))
        if kind == "classifier":
            centres = [[draw(st.integers(-20, 20)) / 2.0, draw(st.integers(-20, 20)) / 2.0] for _ in range(k)]
            sub["X"] = [[centres[zi][0] + draw(st.integers(-8, 8)) / 8.0, centres[zi][1] + draw(st.integers(-8, 8)) / 8.0] for zi in z]
        subs.append(sub)
    salts = draw(st.lists(st.integers(1, 4000), min_size=2, max_size=2, unique=True))
    return dict(subs=subs, salts=salts)


def _clause(name):
    heavy = name in ("ConstraintKMeans", "ApproximateNMFPredictor", "DecisionTreeLogisticRegression", "ClassifierAfterKMeans", "PiecewiseClassifier", "PiecewiseRegressor")
    threaded = name in ("IntervalRegressor",)          # results must not depend on the thread schedule: more histories, more schedules
    return Clause("refit:" + name, check_refit, strategy=lambda tier, n=name: _refit_cases(n, tier), quick=320 if threaded else (60 if heavy else 100),
                  thorough=4000 if threaded else (800 if heavy else 1500), quick_shards=8 if threaded else 1, thorough_shards=8 if threaded else 2, doc="fit histories on %s: instance == clone-fit under one seed" % name)


CLAUSES = [_clause(n) for n in sorted(R.ENTRIES)] + [
    Clause("interpreters", check_interpreters, strategy=lambda tier: _interp_cases(tier), quick=32, thorough=400, quick_shards=16, thorough_shards=16,
           doc="the same fits in two fresh interpreters with different PYTHONHASHSEED give the same models (string labels, tokens, categories)"),
    Clause("random-state", check_random_state, strategy=lambda tier: _rs_cases(tier), quick=300, thorough=5000, quick_shards=2,
           doc="int random_state documented as deterministic (KMeansL1L2) => independent of the global seed; reported for three other classes"),
]
