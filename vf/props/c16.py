"""C16 - pipeline introspection and drawing describe the pipeline they are given."""
from vf import loader
from vf.core import Clause, Outcome, Violation, require
from vf import pipegen

import copy
import re
import numpy as np
import pandas
from hypothesis import strategies as st
from sklearn.compose import ColumnTransformer
from sklearn.pipeline import FeatureUnion, Pipeline

PROPERTY = "C16"
RULE = ("Hypothesis draws a pipeline *program* from a grammar (Pipeline of 1-3 steps / FeatureUnion of 1-3 / ColumnTransformer of 1-3 "
        "transformers with columns by name or by position and remainder drop|passthrough / leaf transformers StandardScaler, "
        "MinMaxScaler, SimpleImputer, PolynomialFeatures, PCA / 'passthrough' / an optional final predictor), nested to depth 3 "
        "(4 thorough), together with a data schema it is fit-able on (DataFrame, ndarray, or list of names); column selectors are "
        "only generated where scikit-learn accepts them (names only while the data is still a frame). Oracles: (enumerate) an "
        "independent recursive walk over steps / transformer_list / transformers; (debug) a deep copy taken before "
        "alter_pipeline_for_debugging + the recorded inputs/outputs; (dot) a reader for the emitted DOT subset with referential "
        "integrity, acyclicity, presence and reachability checks. Non-trivial: depth >= 2 with a ColumnTransformer or FeatureUnion. "
        "Distinct by program JSON.")
ASSUMPTIONS = ["recording clause: scikit-learn's ColumnTransformer fits clones, so the objects enumerate_pipeline_models walks below a "
               "ColumnTransformer are never invoked; 'each step' is read as 'each model the altered pipeline actually invokes'",
               "azureml / sklearn-pandas branches cannot be exercised (libraries absent)"]
TOLERANCES = {"debug transparency": "exact"}

_hp = loader.module("helpers.pipeline")
_vz = loader.module("plotting.visualize")


def _shape(spec):
    t = spec["t"]
    if t == "pipeline":
        return ["P"] + [_shape(s) for s in spec["steps"]]
    if t == "union":
        return ["U"] + [_shape(s) for s in spec["members"]]
    if t == "columns":
        return ["C", spec["remainder"], spec["byname"]] + [[len(tr["cols"]), _shape(tr["tr"])] for tr in spec["transformers"]]
    return spec.get("k", t)


def _depth(spec):
    t = spec["t"]
    if t == "pipeline":
        return 1 + max(_depth(s) for s in spec["steps"])
    if t == "union":
        return 1 + max(_depth(s) for s in spec["members"])
    if t == "columns":
        return 1 + max(_depth(tr["tr"]) for tr in spec["transformers"])
    return 1


def _has(spec, kinds):
    t = spec["t"]
    if t in kinds:
        return True
    if t == "pipeline":
        return any(_has(s, kinds) for s in spec["steps"])
    if t == "union":
        return any(_has(s, kinds) for s in spec["members"])
    if t == "columns":
        return any(_has(tr["tr"], kinds) for tr in spec["transformers"])
    return False


def _labels(case):
    s = case["spec"]
    return ["schema=" + case["schema"], "depth=%d" % _depth(s), "has-columns" if _has(s, {"columns"}) else "no-columns",
            "has-union" if _has(s, {"union"}) else "no-union", "has-passthrough" if _has(s, {"pass"}) else "no-passthrough",
            "predictor" if case["predictor"] else "no-predictor", "subclassed-containers" if case.get("subclass") else "plain-containers", "columns-as-" + case.get("cols_kind", "list")]


def _nontrivial(case):
    s = case["spec"]
    return _depth(s) >= 2 and _has(s, {"columns", "union"})


# ------------------------------------------------------------------------------- enumerate / str
def check_enumerate(case):
    pipe = pipegen.build(case["spec"], bool(case.get("subclass")), case.get("cols_kind", "list"))
    facts = dict(schema=case["schema"])
    ref = list(pipegen.walk(pipe))
    got = list(_hp.enumerate_pipeline_models(pipe))
    if len(got) != len(ref):
        # the statement does not say whether the remainder of a ColumnTransformer counts as a nested estimator: an implementation that
        # enumerates it (after the transformers) is held to the same rules, one that does not is too
        ref_r = list(pipegen.walk(pipe, remainder=True))
        if len(ref_r) == len(got):
            ref = ref_r
            facts["remainder_enumerated"] = True
    require(len(got) == len(ref), "enumerate:count", "%d models yielded, the pipeline nests %d" % (len(got), len(ref)), facts)
    coors = []
    for (coor, model, vs), (depth, obj, cols) in zip(got, ref):
        if isinstance(obj, str):
            require(model.__class__.__name__ == "PassThrough", "enumerate:passthrough", "%r" % (model,), facts)
        else:
            require(model is obj, "enumerate:wrong-model-or-order", "expected %r got %r" % (type(obj).__name__, type(model).__name__), facts)
        require(isinstance(coor, tuple) and len(coor) == depth, "enumerate:coordinate-length", "%r at nesting depth %d" % (coor, depth), facts)
        coors.append(coor)
    require(len(set(coors)) == len(coors), "enumerate:coordinates-not-distinct", "%r" % (coors,), facts)
    # parents first: every proper prefix-parent appears earlier
    for i, c in enumerate(coors):
        if len(c) > 1:
            require(any(len(p) == len(c) - 1 and p == c[:len(p)] for p in coors[:i]), "enumerate:parent-not-first", "%r" % (c,), facts)
    for indent in (3, 1):
        text = _vz.pipeline2str(pipe, indent=indent)
        rows = text.split("\n")
        require(len(rows) == len(got), "pipeline2str:line-count", "%d lines for %d models" % (len(rows), len(got)), facts)
        for row, (coor, model, vs) in zip(rows, got):
            ind = len(row) - len(row.lstrip(" "))
            require(ind == indent * (len(coor) - 1), "pipeline2str:indentation", "%r for coordinate %r" % (row, coor), facts)
            require(row.strip().startswith(model.__class__.__name__), "pipeline2str:class-name", "%r vs %s" % (row, model.__class__.__name__), facts)
    return Outcome(_labels(case), _nontrivial(case), key=_shape(case["spec"]))


# ------------------------------------------------------------------------------- debugging hooks
def _eq(a, b):
    if isinstance(a, pandas.DataFrame) or isinstance(b, pandas.DataFrame):
        a = a.values if isinstance(a, pandas.DataFrame) else np.asarray(a)
        b = b.values if isinstance(b, pandas.DataFrame) else np.asarray(b)
    if hasattr(a, "todense"):
        a = np.asarray(a.todense())
    if hasattr(b, "todense"):
        b = np.asarray(b.todense())
    a, b = np.asarray(a), np.asarray(b)
    return a.shape == b.shape and bool(np.array_equal(a, b, equal_nan=True))


def _invoked(pipe, out=None):
    """models the fitted pipeline really calls: Pipeline steps and FeatureUnion members, not below a ColumnTransformer"""
    out = [] if out is None else out
    out.append(pipe)
    if isinstance(pipe, Pipeline):
        for _, m in pipe.steps:
            if not isinstance(m, str) and m is not None:
                _invoked(m, out)
    elif isinstance(pipe, FeatureUnion):
        for _, m in pipe.transformer_list:
            if not isinstance(m, str):
                _invoked(m, out)
    return out


class _NotUnderThisConfig(Exception):
    pass


def check_debug(case):
    """the caller may have asked scikit-learn for pandas containers globally (set_config / config_context): the instrumented pipeline
    then still answers what the untouched copy answers, container included.  A pipeline scikit-learn itself cannot run under that
    configuration is examined under the default one."""
    if case.get("pandas_config"):
        import sklearn
        try:
            with sklearn.config_context(transform_output="pandas"):
                return _check_debug(case, True)
        except _NotUnderThisConfig:
            pass
    return _check_debug(case, False)


def _check_debug(case, pandas_config):
    pipe = pipegen.build(case["spec"], bool(case.get("subclass")), case.get("cols_kind", "list"))
    data, y = pipegen.make_data(case)
    facts = dict(schema=case["schema"], predictor=case["predictor"], pandas_config=pandas_config)
    try:
        pipe.fit(data, y)
    except Exception:  # noqa: BLE001
        if pandas_config:
            raise _NotUnderThisConfig()
        raise
    batches = [data.iloc[:case["batch"]] if hasattr(data, "iloc") else data[:case["batch"]],
               data.iloc[2:] if hasattr(data, "iloc") else data[2:]]
    methods = [m for m in ("predict", "predict_proba", "decision_function", "transform") if hasattr(pipe, m)]
    ref = copy.deepcopy(pipe)
    try:
        expected = {(m, i): getattr(ref, m)(b) for m in methods for i, b in enumerate(batches)}
    except Exception:  # noqa: BLE001
        if pandas_config:
            raise _NotUnderThisConfig()
        raise
    _hp.alter_pipeline_for_debugging(pipe)
    unrecorded = 0
    if case.get("fail_first") and methods:
        # a call that fails inside a step (a batch with a column missing, refused by the first model that counts its columns) comes
        # first: the hooks record the calls that follow as if nothing had happened
        bad = batches[0].iloc[:, :-1] if hasattr(batches[0], "iloc") else batches[0][:, :-1]
        for m_ in methods:
            try:
                getattr(pipe, m_)(bad)
            except Exception:  # noqa: BLE001
                pass
    for i, b in enumerate(batches):
        for m in methods:
            out = getattr(pipe, m)(b)
            require(_eq(out, expected[(m, i)]), "debug:output-changed:" + m, "the altered pipeline answers differently from a copy made before altering", facts)
            require(isinstance(out, pandas.DataFrame) == isinstance(expected[(m, i)], pandas.DataFrame), "debug:output-container-changed:" + m,
                    "the altered pipeline returns a %s where the untouched copy returns a %s" % (type(out).__name__, type(expected[(m, i)]).__name__), facts)
            dbg = getattr(pipe, "_debug", None)
            require(dbg is not None and m in dbg.inputs and m in dbg.outputs, "debug:root-not-recorded:" + m, "", facts)
            require(_eq(dbg.inputs[m], b) and _eq(dbg.outputs[m], out), "debug:root-record-wrong:" + m, "the root does not hold its last input/output", facts)
            # consecutive steps of the root pipeline chain: step j's recorded input is step j-1's recorded output
            if isinstance(pipe, Pipeline):
                steps = [s_ for _, s_ in pipe.steps if not isinstance(s_, str) and s_ is not None]
                prev_out = None
                for j, s_ in enumerate(steps):
                    sd = getattr(s_, "_debug", None)
                    require(sd is not None, "debug:model-without-record-holder", type(s_).__name__, facts)
                    last = j == len(steps) - 1
                    key = "transform" if (not last or m == "transform") else m
                    require(key in sd.inputs and key in sd.outputs, "debug:step-not-recorded", "step %d (%s) has no record for %r" % (j, type(s_).__name__, key), facts)
                    if j == 0:
                        require(_eq(sd.inputs[key], b), "debug:first-step-input", "step 0 did not record the batch", facts)
                    else:
                        require(_eq(sd.inputs[key], prev_out), "debug:steps-do-not-chain",
                                "input recorded by step %d (%s) is not the output recorded by step %d" % (j, type(s_).__name__, j - 1), facts)
                    prev_out = sd.outputs[key]
                if steps:
                    require(_eq(prev_out, out), "debug:last-step-output", "the last step's recorded output is not the pipeline's output", facts)
            # every invoked leaf model holds a truthful record of its last call (containers follow from transparency;
            # re-invoking a container would overwrite its children's records)
            for model in _invoked(pipe):
                d = getattr(model, "_debug", None)
                require(d is not None, "debug:model-without-record-holder", type(model).__name__, facts)
                for k in d.inputs:
                    # (a call that raised leaves an input without output behind: a truthful record of a failed call)
                    require(k in d.outputs or case.get("fail_first"), "debug:input-without-output", "%s.%s" % (type(model).__name__, k), facts)
                if isinstance(model, (Pipeline, FeatureUnion)):
                    continue
                for k in list(d.inputs):
                    if k not in d.outputs:
                        continue
                    redo = d.methods[k](model, d.inputs[k])
                    require(_eq(redo, d.outputs[k]), "debug:record-not-truthful", "%s.%s: recorded output is not what the model returns on the recorded input" % (
                        type(model).__name__, k), facts)
    # the caller's batch object is refilled in place and passed again (a buffer re-used between two batches): the answer follows the
    # content, the records describe the second call
    if methods and len(data) >= 2 * case["batch"]:
        m0 = methods[-1]
        nb = case["batch"]
        if hasattr(data, "iloc"):
            buf = data.iloc[:nb].copy()
            getattr(pipe, m0)(buf)
            buf.iloc[:, :] = data.iloc[-nb:].values
        else:
            buf = np.array(data[:nb], copy=True)
            getattr(pipe, m0)(buf)
            buf[:] = data[-nb:]
        out2 = getattr(pipe, m0)(buf)
        require(_eq(out2, getattr(ref, m0)(buf)), "debug:output-changed:same-object-refilled:" + m0,
                "called again with the same batch object holding other rows, the altered pipeline answers differently from the untouched copy", facts)
        dbg = getattr(pipe, "_debug", None)
        require(dbg is not None and _eq(dbg.inputs[m0], buf) and _eq(dbg.outputs[m0], out2), "debug:root-record-wrong:same-object-refilled", "", facts)
        if isinstance(pipe, Pipeline):
            steps = [s_ for _, s_ in pipe.steps if not isinstance(s_, str) and s_ is not None]
            prev_out = None
            for j, s_ in enumerate(steps):
                sd = getattr(s_, "_debug", None)
                key = "transform" if (j < len(steps) - 1 or m0 == "transform") else m0
                if sd is None or key not in sd.inputs:
                    break
                if j > 0:
                    require(_eq(sd.inputs[key], prev_out), "debug:steps-do-not-chain:same-object-refilled",
                            "input recorded by step %d is not the output recorded by step %d" % (j, j - 1), facts)
                if not isinstance(s_, (Pipeline, FeatureUnion)):
                    require(_eq(sd.methods[key](s_, sd.inputs[key]), sd.outputs[key]), "debug:record-not-truthful:same-object-refilled",
                            "step %d: the recorded output is not what the step returns on its recorded input" % j, facts)
                prev_out = sd.outputs[key]
    # a deep copy of the instrumented pipeline is an instrumented pipeline of its own: what it is called with lands in ITS records and the
    # first pipeline's records keep describing the first pipeline's last call
    if methods and len(batches[0]) != len(batches[1]):
        m0 = methods[0]
        twin = copy.deepcopy(pipe)
        out_p = getattr(pipe, m0)(batches[0])
        out_t = getattr(twin, m0)(batches[1])
        require(_eq(out_t, expected[(m0, 1)]), "debug:output-changed:" + m0 + ":copy", "a deep copy of the altered pipeline answers differently", facts)
        td, pd_ = getattr(twin, "_debug", None), getattr(pipe, "_debug", None)
        require(td is not None and m0 in td.inputs and _eq(td.inputs[m0], batches[1]) and _eq(td.outputs[m0], out_t), "debug:copy-does-not-record-its-own-call",
                "after copy.deepcopy, the copy's root record does not hold the batch the copy was called with", facts)
        require(_eq(pd_.inputs[m0], batches[0]) and _eq(pd_.outputs[m0], out_p), "debug:copy-writes-into-the-original-records",
                "a call on the deep copy changed the records of the pipeline it was copied from", facts)
    # models below a ColumnTransformer: whatever is recorded must be truthful (usually nothing is)
    for _, model, _vs in _hp.enumerate_pipeline_models(pipe):
        d = getattr(model, "_debug", None)
        if d is not None and not d.inputs:
            unrecorded += 1
    return Outcome(_labels(case) + ["some-models-unrecorded" if unrecorded else "all-recorded"], _nontrivial(case), key=_shape(case["spec"]))


# ------------------------------------------------------------------------------- DOT
_opt = re.compile(r"^\s*(\w+)=([^;]+);$")
_decl = re.compile(r"^\s*(\w+)\[(.*)\];$")
_edge = re.compile(r"^\s*([^\s]+) -> ([^\s;]+);$")
_label = re.compile(r'label="((?:[^"\\]|\\.)*)"')          # a DOT quoted string: \" does not end it
_attr = r'\w+=(?:"(?:[^"\\]|\\.)*"|[^",\]\s]+)'
_attrs = re.compile(r"^%s(?:,%s)*$" % (_attr, _attr))          # the whole attribute list of a declaration: key=value pairs, values bare or quoted


def _fields(label):
    out, cur, i = [], "", 0
    while i < len(label):
        ch = label[i]
        if ch == "\\" and i + 1 < len(label):
            cur += label[i:i + 2]
            i += 2
            continue
        if ch == "|":
            out.append(cur)
            cur = ""
        else:
            cur += ch
        i += 1
    out.append(cur)
    return out


def _unescape(text):
    return re.sub(r"\\(.)", r"\1", text)


def parse_dot(text):
    lines = text.split("\n")
    if not lines or lines[0].strip() != "digraph{" or lines[-1].strip() != "}":
        raise Violation("dot:not-a-digraph", "first line %r last line %r" % (lines[:1], lines[-1:]))
    nodes, edges = {}, []
    for ln in lines[1:-1]:
        if not ln.strip():
            continue
        m = _decl.match(ln)
        if m:
            if not _attrs.match(m.group(2)):
                raise Violation("dot:malformed-attribute-list", repr(ln))
            lab = _label.search(m.group(2))
            if lab is None:
                raise Violation("dot:node-without-label", ln)
            ports = {}
            if "shape=record" in m.group(2):
                for field in (_fields(lab.group(1)) if lab.group(1) else []):
                    fm = re.match(r"^<(\w+)> (.*)$", field, re.S)
                    if fm:
                        ports[fm.group(1)] = _unescape(fm.group(2))
                    else:
                        raise Violation("dot:record-field-without-port", "field %r of %s (a column name split by an unescaped delimiter?)" % (field, m.group(1)))
            if m.group(1) in nodes:
                raise Violation("dot:node-declared-twice", m.group(1))
            nodes[m.group(1)] = dict(label=lab.group(1), ports=ports, record="shape=record" in m.group(2))
            continue
        m = _edge.match(ln)
        if m:
            edges.append((m.group(1), m.group(2)))
            continue
        if _opt.match(ln):
            continue
        raise Violation("dot:unparsable-line", repr(ln))
    return nodes, edges


def check_dot(case):
    pipe = pipegen.build(case["spec"], bool(case.get("subclass")), case.get("cols_kind", "list"))
    data, y = pipegen.make_data(case)
    schema = case["schema"]
    arg = list(case["names"]) if schema == "names" else data
    facts = dict(schema=schema, has_columns=_has(case["spec"], {"columns"}), byname=_has_byname(case["spec"]),
                 remainder_passthrough=_has_remainder(case["spec"]), root=case["spec"]["t"])
    text = _vz.pipeline2dot(pipe, arg)
    try:
        nodes, edges = parse_dot(text)
    except Violation as v:
        v.facts.update(facts)
        raise
    # referential integrity
    for a, b in edges:
        for end in (a, b):
            nid, _, port = end.partition(":")
            require(nid in nodes, "dot:edge-endpoint-undeclared", "edge %s -> %s: %r is not a declared node" % (a, b, nid), facts)
            if port:
                require(port in nodes[nid]["ports"], "dot:edge-port-missing", "edge %s -> %s: node %s has no port %s" % (a, b, nid, port), facts)
    # acyclic
    adj = {}
    for a, b in edges:
        adj.setdefault(a.partition(":")[0], set()).add(b.partition(":")[0])
    state = {}

    def visit(u):
        state[u] = 1
        for v in adj.get(u, ()):
            if state.get(v) == 1:
                return True
            if v not in state and visit(v):
                return True
        state[u] = 2
        return False
    for u in list(nodes):
        if u not in state and visit(u):
            raise Violation("dot:cycle", "the graph has a cycle through %s" % u, facts)
    # every input column appears as a field of sch0
    require("sch0" in nodes, "dot:no-input-schema", "", facts)
    in_names = case["names"] if schema in ("frame", "names") else ["X%d" % i for i in range(len(case["names"]))]
    fields = list(nodes["sch0"]["ports"].values())
    require(sorted(map(str, fields)) == sorted(map(str, in_names)), "dot:input-columns-missing", "sch0 fields %r, input columns %r" % (fields, in_names), facts)
    # every step appears
    leaves = []
    for _, obj, _c in pipegen.walk(pipe):
        if isinstance(obj, str):
            leaves.append("Identity")
        elif not isinstance(obj, (Pipeline, FeatureUnion, ColumnTransformer)):
            leaves.append(type(obj).__name__)
    labels_ = [n["label"] for k, n in nodes.items() if not n["record"]]
    for name in set(leaves):
        require(labels_.count(name) >= leaves.count(name), "dot:step-missing", "%d node(s) labelled %s for %d such step(s)" % (labels_.count(name), name, leaves.count(name)), facts)
    # final outputs reachable from the inputs
    reach = set()
    stack = ["sch0"]
    while stack:
        u = stack.pop()
        if u in reach:
            continue
        reach.add(u)
        stack.extend(adj.get(u, ()))
    # at column level: every field of a schema written by a step receives an edge (an output column nobody produces
    # cannot be reached from the inputs)
    fed = set(b for _, b in edges)
    for nid, nd in nodes.items():
        if nd["record"] and nid != "sch0":
            for port, colname in nd["ports"].items():
                require("%s:%s" % (nid, port) in fed, "dot:output-column-unreachable",
                        "field %s (%r) of %s is produced by no step" % (port, colname, nid), facts)
    # every input column the pipeline consumes leaves the input schema
    used = _used_columns(case["spec"], list(range(len(in_names))), list(case["names"]))
    port_of = {str(v): k for k, v in nodes["sch0"]["ports"].items()}
    srcs = set(a for a, _ in edges)
    for ci in sorted(used):
        prt = "sch0:%s" % port_of[str(in_names[ci])]
        require(prt in srcs, "dot:consumed-input-column-dangling", "input column %r is consumed by the pipeline but no edge leaves %s" % (in_names[ci], prt), facts)
    sinks = [k for k in nodes if not adj.get(k) and k != "sch0"]
    require(len(sinks) >= 1, "dot:no-output", "", facts)
    for s in sinks:
        require(s in reach, "dot:output-unreachable", "%s (label %r) cannot be reached from the input schema" % (s, nodes[s]["label"]), facts)
    return Outcome(_labels(case), _nontrivial(case), key=[_shape(case["spec"]), schema])


def _used_columns(spec, cols, names=None):
    """indices (into the input schema) of the columns consumed by the first consuming level of the program;
    `cols` are the schema indices visible at this point, `names` the input schema's names (for selection by name)"""
    t = spec["t"]
    if t == "pipeline":
        for s_ in spec["steps"]:
            return _used_columns(s_, cols, names) if s_["t"] != "pass" else set(cols)
        return set(cols)
    if t == "union":
        out = set()
        for s_ in spec["members"]:
            out |= _used_columns(s_, cols, names)
        return out
    if t == "columns":
        out, taken = set(), set()
        for tr in spec["transformers"]:
            if spec["byname"]:
                sel = [names.index(c) for c in tr["cols"]]
            else:
                sel = [cols[c] for c in tr["cols"]]
            taken |= set(sel)
            out |= _used_columns(tr["tr"], sel, names) if tr["tr"]["t"] in ("pipeline", "union", "columns") else set(sel)
        if spec["remainder"] == "passthrough":
            out |= set(cols) - taken
        return out
    return set(cols)


def _has_byname(spec):
    t = spec["t"]
    if t == "columns":
        return bool(spec["byname"]) or any(_has_byname(tr["tr"]) for tr in spec["transformers"])
    if t == "pipeline":
        return any(_has_byname(s) for s in spec["steps"])
    if t == "union":
        return any(_has_byname(s) for s in spec["members"])
    return False


def _has_remainder(spec):
    t = spec["t"]
    if t == "columns":
        return spec["remainder"] == "passthrough" or any(_has_remainder(tr["tr"]) for tr in spec["transformers"])
    if t == "pipeline":
        return any(_has_remainder(s) for s in spec["steps"])
    if t == "union":
        return any(_has_remainder(s) for s in spec["members"])
    return False


def _strategy(tier):
    # one case in four builds its containers from user subclasses of Pipeline / FeatureUnion / ColumnTransformer
    return st.builds(lambda c, f, ck, ff: dict(c, subclass=f, cols_kind=ck, fail_first=ff), pipegen.program(max_depth=3 if tier == "quick" else 4), st.sampled_from([False, False, False, True]),
                     st.sampled_from(["list", "list", "tuple", "array"]), st.sampled_from([False, False, True])).flatmap(
        lambda c: st.sampled_from([False, False, False, True]).map(lambda pc: dict(c, pandas_config=pc)))


CLAUSES = [
    Clause("enumerate", check_enumerate, strategy=_strategy, quick=1200, thorough=20000, quick_shards=8,
           doc="enumerate_pipeline_models vs an independent walk; pipeline2str lines"),
    Clause("debug", check_debug, strategy=_strategy, quick=500, thorough=8000, quick_shards=12,
           doc="alter_pipeline_for_debugging is transparent and records truthful, chained inputs/outputs"),
    Clause("dot", check_dot, strategy=_strategy, quick=1200, thorough=20000, quick_shards=8,
           doc="pipeline2dot parsed: declared endpoints, ports, acyclic, steps and columns present, outputs reachable"),
]
