"""C02 - fit/predict never alter hyper-parameters or caller data, even when fit fails."""
from vf import loader
from vf.core import Clause, Outcome, Violation, require
from vf import registry as R
from vf import estimators as H

import copy
import numpy as np
import pandas
from hypothesis import strategies as st
from sklearn.base import clone

PROPERTY = "C02"
LEVEL = "fault_enumeration"
RULE = ("history:<class>: for every fit-able registry class Hypothesis draws a configuration, a good data set and a history of calls - "
        "fit(good), fit(bad_i) and output calls (every prediction method on four memory layouts of the batch, and score with no / float64 / int64 / list sample_weight) in any order - where bad_i ranges over the failures the harness can provoke through inputs: "
        "NaN in X, len(y) != len(X), a single row (fewer samples than clusters / classes), a short sample_weight, 1-D X, empty X - and over unusual but plausible inputs that a class may accept or refuse (y as a column, Fortran-ordered / float32 / read-only X, integer weights). Before "
        "every call the structural image of get_params(deep=True) and the bytes of X, y, sample_weight are recorded; after the call, "
        "whether it returned or raised, both must be unchanged; fit must return the estimator; after the history a final fit(good) must "
        "give the same fingerprint as clone(fresh).fit(good) under the same seed. faults:<meta>: for every meta-estimator the inner "
        "estimator is replaced by one that raises on its k-th fit, for EVERY k from 0 to the number of inner fits counted in a fault-free "
        "dry run of the same case (exhaustive per case, also with n_jobs=2); same invariants. Non-trivial: a failing fit followed by a "
        "successful one, or a fault at inner index >= 1. Distinct by case JSON.")
ASSUMPTIONS = ["failure points inside compiled third-party code cannot be injected: only failures reachable through inputs and inner estimators are enumerated",
               "copy_X=False / copy_x=False document overwriting and are never generated",
               "an input the class happens to accept (e.g. NaN for a tree binner) is simply another successful call"]
TOLERANCES = {"fingerprints": "exact (NMF 1e-9)"}


def _snap(obj):
    if obj is None:
        return None
    if isinstance(obj, pandas.DataFrame):
        return ("frame", list(map(str, obj.columns)), list(obj.index), [tuple(map(repr, r)) for r in obj.itertuples(index=False)])
    if hasattr(obj, "indptr") and hasattr(obj, "data"):
        return ("sparse", obj.shape, obj.data.tobytes(), obj.indices.tobytes(), obj.indptr.tobytes())
    if isinstance(obj, list):
        import json
        return ("list", json.dumps(obj, default=repr))          # deep: a document may itself be a (mutable) list of tokens
    a = np.asarray(obj)
    return ("array", a.shape, str(a.dtype), a.tobytes())


def _bad(kind, X, y, w, data_kind):
    """returns (X, y, w) of a call expected (but not required) to fail"""
    if data_kind in ("text", "frame"):
        if kind == "empty":
            return (X[:0] if isinstance(X, list) else X.iloc[:0]), None, None
        if kind == "wrongtype":
            return 5, None, None
        return None
    if data_kind == "target":
        if kind == "none-y":
            return X, None, None
        return None
    Xb, yb, wb = X.copy(), None if y is None else y.copy(), None if w is None else w.copy()
    if kind == "nan":
        Xb[0, 0] = np.nan
    elif kind == "ylen":
        if yb is None:
            return None
        yb = yb[:-1]
    elif kind == "few":
        Xb, yb, wb = Xb[:1], None if yb is None else yb[:1], None if wb is None else wb[:1]
    elif kind == "wlen":
        if wb is None:
            wb = np.ones(len(Xb) - 1)
        else:
            wb = wb[:-1]
    elif kind == "X1d":
        Xb = Xb.ravel()
    elif kind == "empty":
        Xb, yb, wb = Xb[:0], None if yb is None else yb[:0], None if wb is None else wb[:0]
    elif kind == "y-column":
        if yb is None:
            return None
        yb = yb.reshape(-1, 1)
    elif kind == "X-fortran":
        Xb = np.asfortranarray(Xb)
    elif kind == "X-float32":
        Xb = Xb.astype(np.float32)
    elif kind == "w-int":
        wb = np.arange(1, len(Xb) + 1, dtype=np.int64)
    elif kind == "X-readonly":
        Xb.setflags(write=False)
    elif kind == "X-sparse-negative":
        if data_kind != "nmf":
            return None
        import scipy.sparse
        Xb = scipy.sparse.csr_matrix(Xb)
        if Xb.nnz == 0:
            return None
        Xb.data[0] = -abs(Xb.data[0]) - 1.0            # a negative entry in a CSR table: refused or not, the caller's table stays as it is
    elif kind == "X-sparse":
        if data_kind != "nmf":
            return None
        import scipy.sparse
        Xb = scipy.sparse.csr_matrix(Xb)
    elif kind == "inf-y":
        if yb is None or yb.dtype.kind != "f":
            return None
        yb[0] = np.inf
    else:
        return None
    return Xb, yb, wb


BAD_KINDS = ["nan", "ylen", "few", "wlen", "X1d", "empty", "inf-y", "wrongtype", "none-y", "y-column", "X-fortran", "X-float32", "w-int", "X-readonly", "X-sparse-negative", "X-sparse", "bad-init"]


def _call_fit(entry, est, X, y, w, facts):
    """calls fit, checks the invariants that hold whether or not it raises; returns 'ok' or the exception"""
    before = R.params_image(est)
    X = entry.prepare(est, X)           # what the caller really hands over (token lists for a pre-tokenized corpus)
    sx, sy, sw = _snap(X), _snap(y), _snap(w)
    err = None
    try:
        if w is not None and not entry.uses_weights and entry.kind not in ("cluster", "nmf", "text", "frame", "target"):
            r = est.fit(X, y)
        elif w is not None and entry.kind in ("reg", "clf") and entry.uses_weights:
            r = est.fit(X, y, sample_weight=w)
        else:
            r = entry.fit(est, X, y, None)
    except Exception as e:  # noqa: BLE001 - a failing fit is part of the history
        err = e
    after = R.params_image(est)
    if after != before:
        ks = [k for k in sorted(set(before) | set(after)) if before.get(k) != after.get(k)]
        raise Violation("fit:changes-params" + (":after-failure" if err is not None else ""),
                        "get_params differs after fit%s: %s" % (" raised %s" % type(err).__name__ if err is not None else "",
                                                              "; ".join("%s: %r -> %r" % (k, before.get(k), after.get(k)) for k in ks[:3])),
                        dict(facts, failed=err is not None, keys=ks[:3]))
    require(_snap(X) == sx and _snap(y) == sy and _snap(w) == sw, "fit:writes-into-input", "fit modified X, y or sample_weight", dict(facts, failed=err is not None))
    if err is None:
        require(r is est, "fit:does-not-return-self", "fit returned %r" % type(r).__name__, facts)
    return err


def _outputs(entry, est, Z, facts):
    before = R.params_image(est)
    variants = [("C-order", Z)]
    if isinstance(Z, np.ndarray) and Z.ndim == 2 and Z.dtype == np.float64:
        # other memory layouts / dtypes of the same batch: a method may refuse them, it may not write into them
        variants += [("F-order", np.asfortranarray(Z.copy())), ("float32", Z.astype(np.float32)), ("non-contiguous", np.repeat(Z, 2, axis=1)[:, ::2])]
    for vname, Zv in variants:
        Zv = entry.prepare(est, Zv)
        sz = _snap(Zv)
        for m in entry.available(est):
            try:
                entry.call(est, m, Zv)
            except Exception:  # noqa: BLE001 - refused method / layout: invariants still checked
                pass
            require(R.params_image(est) == before, "predict:changes-params", "%s changed get_params" % m, dict(facts, method=m))
            require(_snap(Zv) == sz, "predict:writes-into-input", "%s modified its input (%s batch)" % (m, vname), dict(facts, method=m, layout=vname))


def _scores(entry, est, X, y, w, facts):
    """score(X, y[, sample_weight]) with the weights as a float64 array, an integer array and a list: it may refuse, it may not write"""
    if entry.kind not in ("reg", "clf", "cluster") or not R._has_method(est, "score"):
        return 0
    if getattr(est, "balanced_predictions", False):
        return 0          # ConstraintKMeans.score with balanced predictions is outside every listed property (see BUILDLOG)
    n = len(X)
    base = w if w is not None else (np.arange(1, n + 1, dtype=np.float64) / 4.0)
    before = R.params_image(est)
    done = 0
    for wname, wv in (("none", None), ("float64", np.array(base, dtype=np.float64)), ("int64", np.arange(1, n + 1, dtype=np.int64)),
                      ("list", [float(v) for v in base])):
        sx, sy, sw = _snap(X), _snap(y), _snap(wv)
        try:
            args = (X,) if entry.kind == "cluster" else (X, y)
            est.score(*args) if wv is None else est.score(*args, sample_weight=wv)
            done += 1
        except Exception:  # noqa: BLE001 - a refused call: the invariants are checked all the same
            pass
        f2 = dict(facts, method="score", weights=wname)
        require(R.params_image(est) == before, "predict:changes-params", "score changed get_params", f2)
        require(_snap(X) == sx and _snap(y) == sy, "predict:writes-into-input", "score modified X or y", f2)
        require(_snap(wv) == sw, "score:writes-into-sample_weight", "score modified the caller's sample_weight (%s)" % wname, f2)
    return done


def check_history(case):
    name = case["cls"]
    entry = R.ENTRIES[name]
    facts = dict(cls=name)
    data = case["data"]
    est = R.build(case["spec"])
    fitted = False
    n_fail = 0
    fail_then_ok = False
    last_failed = False
    kinds = set()
    n_score = 0
    alt = case.get("alt_first")
    if alt and data["kind"] in ("reg", "clf", "cluster"):
        # the instance was used before on ANOTHER table of the same shape (other values): a fit that succeeds, or one that raises
        # (a NaN target), both leave nothing behind that the fits below could pick up
        Xa, ya, wa = R.materialize(data)
        Xa = np.ascontiguousarray(Xa[::-1] * 0.5 + 0.25)
        ya = None if ya is None else np.ascontiguousarray(ya[::-1])
        if alt == "bad" and ya is not None and ya.dtype.kind == "f":
            ya = ya.copy()
            ya[0] = np.nan
        np.random.seed(case["seed"] + 11)
        _call_fit(entry, est, Xa, ya, wa, dict(facts, alt=alt))
    for op in case["ops"]:
        X, y, w = R.materialize(data)
        if op[0] == "fit":
            np.random.seed(case["seed"])
            err = _call_fit(entry, est, X, y, w, facts)
            require(err is None, "fit:good-data-refused", "fit on valid data raised %s: %s" % (type(err).__name__, str(err)[:200]), facts) if err is not None else None
            fitted = True
            if last_failed:
                fail_then_ok = True
            last_failed = False
        elif op[0] == "bad" and op[1] == "bad-init":
            # a configuration mistake the estimator only discovers inside fit (initial centres of the wrong width): the fit fails,
            # the caller's table is what it was, the mistake is corrected and the next fit is an ordinary fit
            if not (hasattr(est, "init") and isinstance(X, np.ndarray) and X.ndim == 2 and hasattr(est, "n_clusters")):
                continue
            good_init = est.init
            est.set_params(init=np.zeros((int(est.n_clusters), X.shape[1] + 1)))
            np.random.seed(case["seed"])
            err = _call_fit(entry, est, X, y, w, dict(facts, bad=op[1]))
            est.set_params(init=good_init)
            if err is not None:
                n_fail += 1
                last_failed = True
                kinds.add(op[1])
                fitted = False if not _is_fitted(entry, est, data, X, y) else fitted
        elif op[0] == "bad":
            bad = _bad(op[1], X, y, w, data["kind"])
            if bad is None:
                continue
            np.random.seed(case["seed"])
            err = _call_fit(entry, est, bad[0], bad[1], bad[2], dict(facts, bad=op[1]))
            if err is not None:
                n_fail += 1
                last_failed = True
                kinds.add(op[1])
                fitted = False if not _is_fitted(entry, est, data, X, y) else fitted
            else:
                fitted = _is_fitted(entry, est, data, X, y)
        elif op[0] == "out" and fitted:
            try:
                Z = entry.probe(data, X, y)
            except Exception:  # noqa: BLE001
                continue
            _outputs(entry, est, Z, facts)
            n_score += _scores(entry, est, X, y, w, facts)
    # a later successful fit gives the same model as fitting a fresh clone
    X, y, w = R.materialize(data)
    np.random.seed(case["seed"])
    err = _call_fit(entry, est, X, y, w, facts)
    if err is not None:
        raise Violation("fit:good-data-refused" + (":after-failure" if n_fail else ""), "fit on valid data raised %s: %s" % (type(err).__name__, str(err)[:200]),
                        dict(facts, after_failure=n_fail > 0))
    fresh = clone(R.build(case["spec"]))
    X2, y2, w2 = R.materialize(data)
    np.random.seed(case["seed"])
    err2 = _call_fit(entry, fresh, X2, y2, w2, facts)
    require(err2 is None, "fit:good-data-refused", "fresh clone: %r" % err2, facts)
    np.random.seed(case["seed"] + 3)
    fa = R.fingerprint(entry, est, entry.probe(data, X, y))
    np.random.seed(case["seed"] + 3)
    fb = R.fingerprint(entry, fresh, entry.probe(data, X2, y2))
    d = R.same_fingerprint(fa, fb, exact=entry.exact)
    require(d is None, "history:differs-from-fresh-clone" + (":after-failure" if n_fail else ""),
            "after the history (%d failed fits: %s) a successful fit differs from a fresh clone's: %s" % (n_fail, sorted(kinds), d), dict(facts, failures=n_fail))
    return Outcome([name, "failed-fits=%d" % min(n_fail, 3), "score-calls" if n_score else "no-score-call", "used-before-on-another-table:" + str(alt or "no")] + ["bad:" + k for k in sorted(kinds)], fail_then_ok or n_fail > 0 or bool(alt))


def _is_fitted(entry, est, data, X, y):
    try:
        R.fingerprint(entry, est, entry.probe(data, X, y))
        return True
    except Exception:  # noqa: BLE001
        return False


@st.composite
def _history_cases(draw, name, tier="quick"):
    entry = R.ENTRIES[name]
    spec = R.spec_for(name, draw, draw(st.integers(0, 11)))
    ops = []
    for _ in range(draw(st.integers(2, 6))):
        k = draw(st.sampled_from(["fit", "bad", "bad", "out"]))
        ops.append([k, draw(st.sampled_from(BAD_KINDS))] if k == "bad" else [k])
    return dict(cls=name, spec=spec, data=entry.data(draw), ops=ops, seed=draw(st.integers(0, 2**31 - 10)), alt_first=draw(st.sampled_from([None, None, "good", "bad"])))


# ------------------------------------------------------------------------------- fault enumeration
def _meta_spec(draw, meta):
    key = "k%d" % draw(st.integers(0, 10**6))
    freg = dict(cls="FailingRegressor", params=dict(key=key, fail_at=-1, tag=draw(st.integers(0, 2))))
    fclf = dict(cls="FailingClassifier", params=dict(key=key, fail_at=-1, tag=draw(st.integers(0, 2))))
    ftr = dict(cls="FailingTransformer", params=dict(key=key, fail_at=-1, n_out=1 if meta.startswith("PredictableTSNE") else 2))
    nj = draw(st.sampled_from([None, None, 2]))
    if meta == "PiecewiseRegressor":
        binner = draw(st.sampled_from(["bins", dict(cls="DecisionTreeRegressor", params=dict(max_depth=2, random_state=0))]))
        return dict(cls=meta, params=dict(binner=binner, estimator=freg, n_jobs=nj)), "estimator", "reg"
    if meta == "PiecewiseClassifier":
        binner = draw(st.sampled_from(["bins", dict(cls="DecisionTreeClassifier", params=dict(max_depth=2, random_state=0))]))
        return dict(cls=meta, params=dict(binner=binner, estimator=fclf, n_jobs=nj, random_state=0)), "estimator", "clf"
    if meta == "IntervalRegressor":
        return dict(cls=meta, params=dict(estimator=freg, n_estimators=draw(st.integers(1, 5)), n_jobs=nj)), "estimator", "reg"
    if meta == "ClassifierAfterKMeans":
        return dict(cls=meta, params=dict(estimator=fclf, clus=dict(cls="KMeans", params=dict(n_clusters=2, n_init=1, random_state=0)))), "estimator", "clf"
    if meta == "ClassifierAfterKMeans:clus":
        return dict(cls="ClassifierAfterKMeans", params=dict(estimator=dict(cls="LogisticRegression", params=dict(max_iter=200)), clus=ftr)), "clus", "clf"
    if meta == "DecisionTreeLogisticRegression":
        return dict(cls=meta, params=dict(estimator=fclf, max_depth=draw(st.integers(2, 4)), min_samples_leaf=1, fit_improve_algo="none")), "estimator", "clf2"
    if meta == "TransformedTargetRegressor2":
        return dict(cls=meta, params=dict(regressor=freg, transformer="exp")), "regressor", "reg-small"
    if meta == "TransformedTargetClassifier2":
        return dict(cls=meta, params=dict(classifier=fclf, transformer="permute")), "classifier", "clf"
    if meta == "PredictableTSNE":
        return dict(cls=meta, params=dict(transformer=dict(cls="PCA", params=dict(n_components=1)), estimator=freg, normalize=draw(st.booleans()))), "estimator", "reg2"
    if meta == "PredictableTSNE:transformer":
        return dict(cls="PredictableTSNE", params=dict(transformer=ftr, estimator=dict(cls="LinearRegression", params={}))), "transformer", "reg2"
    if meta == "SkBaseTransformStacking":
        n = draw(st.integers(1, 4))
        return dict(cls=meta, params=dict(models=[copy.deepcopy(freg) for _ in range(n)], method="predict")), "models", "reg"
    if meta == "SkBaseTransformLearner":
        return dict(cls=meta, params=dict(model=freg, method="predict")), "model", "reg"
    if meta == "TransferTransformer":
        return dict(cls=meta, params=dict(estimator=freg, method="predict", copy_estimator=draw(st.booleans()), trainable=True)), "estimator", "reg"
    raise KeyError(meta)


METAS = ["PiecewiseRegressor", "PiecewiseClassifier", "IntervalRegressor", "ClassifierAfterKMeans", "ClassifierAfterKMeans:clus",
         "DecisionTreeLogisticRegression", "TransformedTargetRegressor2", "TransformedTargetClassifier2", "PredictableTSNE",
         "PredictableTSNE:transformer", "SkBaseTransformStacking", "SkBaseTransformLearner", "TransferTransformer"]


def _set_fail_at(spec, k):
    """returns a copy of the spec where every Failing* inner spec fails at k"""
    s = copy.deepcopy(spec)

    def rec(v):
        if isinstance(v, dict):
            if v.get("cls", "").startswith("Failing"):
                v["params"]["fail_at"] = k
            for x in v.values():
                rec(x)
        elif isinstance(v, list):
            for x in v:
                rec(x)
    rec(s)
    return s


def _key_of(spec):
    found = []

    def rec(v):
        if isinstance(v, dict):
            if v.get("cls", "").startswith("Failing"):
                found.append(v["params"]["key"])
            for x in v.values():
                rec(x)
        elif isinstance(v, list):
            for x in v:
                rec(x)
    rec(spec)
    return found[0]


def check_faults(case):
    meta = case["meta"]
    name = case["spec"]["cls"]
    entry = R.ENTRIES[name]
    facts = dict(cls=name, meta=meta, n_jobs=case["spec"]["params"].get("n_jobs"))
    data = case["data"]
    key = _key_of(case["spec"])
    # dry run: how many inner fits?
    H.reset_fail_counter(key)
    dry = R.build(_set_fail_at(case["spec"], -1))
    X, y, w = R.materialize(data)
    np.random.seed(case["seed"])
    err = _call_fit(entry, dry, X, y, None, facts)
    require(err is None, "fit:good-data-refused", "fault-free fit raised %r" % err, facts)
    total = H.fail_count(key)
    require(total >= 1, "harness:no-inner-fit", "the failing estimator was never fitted", facts)
    np.random.seed(case["seed"] + 3)
    ref = R.fingerprint(entry, dry, entry.probe(data, X, y))
    for k in range(total):
        H.reset_fail_counter(key)
        est = R.build(_set_fail_at(case["spec"], k))
        X, y, w = R.materialize(data)
        np.random.seed(case["seed"])
        f2 = dict(facts, k=k, total=total)
        err = _call_fit(entry, est, X, y, None, f2)
        require(err is not None, "fault:not-propagated", "inner fit %d of %d raised but fit returned normally" % (k, total), f2)
        require(isinstance(err, H.MarkerError) or isinstance(getattr(err, "__cause__", None), H.MarkerError) or "injected failure" in str(err),
                "fault:other-exception", "inner failure %d surfaced as %s: %s" % (k, type(err).__name__, str(err)[:200]), f2)
        # the counter is now beyond k: the next fit succeeds and must equal a fresh fit
        X, y, w = R.materialize(data)
        np.random.seed(case["seed"])
        err = _call_fit(entry, est, X, y, None, f2)
        require(err is None, "fit:good-data-refused:after-failure", "after a failure at inner fit %d the next fit raised %s: %s" % (k, type(err).__name__, str(err)[:200]), f2)
        np.random.seed(case["seed"] + 3)
        got = R.fingerprint(entry, est, entry.probe(data, X, y))
        d = R.same_fingerprint(got, ref, exact=entry.exact)
        require(d is None, "fault:later-fit-differs", "after a failure at inner fit %d of %d, a successful fit differs from a fault-free one: %s" % (k, total, d), f2)
    return Outcome([meta, "inner-fits=%d" % min(total, 6), "n_jobs=%s" % facts["n_jobs"]], total >= 2, key=dict(case, total=total))


@st.composite
def _fault_cases(draw, meta, tier="quick"):
    spec, _param, dk = _meta_spec(draw, meta)
    if dk == "reg":
        data = R.d_reg(draw)
    elif dk == "reg2":
        data = R.d_reg(draw, d_min=2, d_max=3)
    elif dk == "reg-small":
        data = R.d_reg(draw)
        data["y"] = [max(-3.0, min(3.0, v / 4.0)) for v in data["y"]]
    elif dk == "clf2":
        data = R.d_clf(draw, n_classes=2, n_min=10, n_max=20)
    else:
        data = R.d_clf(draw, n_min=12, n_max=20)
    data["w"] = None
    return dict(meta=meta, spec=spec, data=data, seed=draw(st.integers(0, 2**31 - 10)))


def _hclause(name):
    heavy = name in ("ConstraintKMeans", "ApproximateNMFPredictor", "DecisionTreeLogisticRegression", "ClassifierAfterKMeans", "PiecewiseClassifier", "PiecewiseRegressor")
    return Clause("history:" + name, check_history, strategy=lambda tier, n=name: _history_cases(n, tier), quick=(160 if name == "ConstraintKMeans" else 50) if heavy else 80,
                  quick_shards=4 if name == "ConstraintKMeans" else 1,
                  thorough=600 if heavy else 1200, thorough_shards=2, doc="histories of good / bad fits and output calls on %s" % name)


def _fclause(meta):
    return Clause("faults:" + meta, check_faults, strategy=lambda tier, m=meta: _fault_cases(m, tier), quick=40, thorough=500, quick_shards=1, thorough_shards=2,
                  level="fault_enumeration", doc="inner estimator raising on its k-th fit, every k of the case, for %s" % meta)


CLAUSES = [_hclause(n) for n in sorted(R.ENTRIES)] + [_fclause(m) for m in METAS]
