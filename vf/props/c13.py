"""C13 - target transformations are undone exactly by their reciprocal."""
from vf import loader
from vf.core import Clause, Outcome, Violation, require
from vf.estimators import BiasedClassifier, CentroidClassifier, KwargsClassifier, KwargsRegressor

import numpy as np
from hypothesis import strategies as st
from sklearn.base import clone
from sklearn.linear_model import LinearRegression, LogisticRegression
from sklearn.naive_bayes import GaussianNB
from sklearn.tree import DecisionTreeRegressor

PROPERTY = "C13"
RULE = ("function-roundtrip: EVERY name in FunctionReciprocalTransformer.available_fcts() (read at run time) x Hypothesis-drawn targets "
        "in the function's domain (ranges chosen from floating-point conditioning), 1-D and (n,1) shapes, NaN at generated positions, "
        "arbitrary X that must come back untouched; oracle: get_fct_inv() undoes transform. function-branches: two or three transformers alive at once on one forward callable (square, cos) with the reciprocals of different branches; permutation-roundtrip: label vectors over "
        "generated label sets (ints incl. negative / non-contiguous, floats with NaN, strings in object and fixed-width arrays, 2..6 "
        "classes) x random_state; the identity permutation is counted as trivial. regressor: TransformedTargetRegressor2(regressor, "
        "name) vs f^-1(clone(regressor).fit(X, f(y)).predict(X)) with f, f^-1 taken from NumPy directly. classifier: "
        "TransformedTargetClassifier2(classifier, 'permute' | PermutationReciprocalTransformer(random_state)) with a "
        "permutation-equivariant learner vs the plain learner: same predictions, classes_ a permutation of the label set, "
        "predict_proba[:, j] == plain probability of label classes_[j]. Non-trivial: every function case; non-identity permutations.")
ASSUMPTIONS = ["function domains: log [1e-6,1e6]; exp [-20,20]; log(1+x), log1p [-0.99,1e6]; exp(x)-1, expm1 [-5,20] (outside, the composition is ill-conditioned in binary64)",
               "classifier labels are ints, floats or strings held in object arrays; fixed-width '<U' label arrays are exercised by the permutation round trip only",
               "CentroidClassifier is exactly label-permutation equivariant; GaussianNB / LogisticRegression are compared with a tolerance"]
TOLERANCES = {"function round trip": "1e-9 * (1+|y|) (log: 1e-12 relative)", "regressor": "1e-12 relative (same NumPy functions)",
              "classifier probabilities": "1e-9 (CentroidClassifier), 1e-6 (GaussianNB), 1e-3 (LogisticRegression with tol=1e-10: the lbfgs stopping rule is not label-equivariant)"}

_fct = loader.module("mlmodel.sklearn_transform_inv_fct")
_tp = loader.module("mlmodel.target_predictors")

DOMAINS = {"log": (1e-6, 1e6), "exp": (-20.0, 20.0), "log(1+x)": (-0.99, 1e6), "log1p": (-0.99, 1e6), "exp(x)-1": (-5.0, 20.0), "expm1": (-5.0, 20.0)}
NUMPY = {"log": (np.log, np.exp), "exp": (np.exp, np.log), "log(1+x)": (lambda x: np.log(1 + x), lambda x: np.exp(x) - 1),
         "log1p": (np.log1p, np.expm1), "exp(x)-1": (lambda x: np.exp(x) - 1, lambda x: np.log(1 + x)), "expm1": (np.expm1, np.log1p)}


def _names():
    return sorted(_fct.FunctionReciprocalTransformer.available_fcts())


def _y_from_unit(name, units):
    lo, hi = DOMAINS.get(name, (0.5, 2.0))
    u = np.array([np.nan if v is None else v for v in units], dtype=np.float64)
    if lo > 0 and hi / lo > 1e3:
        return np.exp(np.log(lo) + u * (np.log(hi) - np.log(lo)))
    if hi > 1e3:
        # mix of small and large magnitudes
        return np.where(u < 0.5, lo + (u * 2) * (2.0 - lo), 2.0 * np.exp((u - 0.5) * 2 * np.log(hi / 2.0)))
    return lo + u * (hi - lo)


def check_function(case):
    name = _names()[case["name_index"] % len(_names())]
    y = _y_from_unit(name, case["units"])
    tiny = bool(case.get("tiny")) and name in ("log1p", "expm1")
    if tiny:
        # log1p / expm1 exist for arguments near zero, where log(1+x) and exp(x)-1 cancel: tiny targets, compared RELATIVELY
        y = y * 1e-10
    if case["two_d"]:
        y = y.reshape(-1, 1)
    X = np.array(case["X"], dtype=np.float64).reshape(len(case["units"]), -1)
    xkind = case.get("xkind", "float")
    if xkind == "int":
        X = np.round(X).astype(np.int64)
    elif xkind == "frame":
        import pandas
        X = pandas.DataFrame(X, columns=["c%d" % j for j in range(X.shape[1])])
    X0, y0 = (X.copy(deep=True) if xkind == "frame" else X.copy()), y.copy()
    facts = dict(name=name, xkind=xkind, callable_pair=bool(case.get("as_callables")))
    if case.get("as_callables") and name in NUMPY:
        # the same function given as a pair of callables: get_fct_inv() must swap them
        t = _fct.FunctionReciprocalTransformer(NUMPY[name][0], NUMPY[name][1])
    else:
        t = _fct.FunctionReciprocalTransformer(name)
    r = t.fit(X, y)
    require(r is t, "fit:not-self", "", facts)
    with np.errstate(all="ignore"):
        X1, y1 = t.transform(X, y)
        inv = t.get_fct_inv()
        X2, y2 = inv.transform(X1, y1)
    require(np.array_equal(np.asarray(X), np.asarray(X0)) and np.array_equal(y, y0, equal_nan=True), "input-modified", "", facts)
    require(np.array_equal(np.asarray(X1), np.asarray(X0)) and np.array_equal(np.asarray(X2), np.asarray(X0)), "features-changed", "", facts)
    require(np.asarray(X1).dtype == np.asarray(X0).dtype, "features-changed:dtype", "%s -> %s" % (np.asarray(X0).dtype, np.asarray(X1).dtype), facts)
    y2 = np.asarray(y2, dtype=np.float64)
    require(y2.shape == y.shape, "roundtrip:shape", "%r vs %r" % (y2.shape, y.shape), facts)
    require(bool(np.all(np.isnan(y2) == np.isnan(y))), "roundtrip:nan-positions", "", facts)
    ok = ~np.isnan(y)
    tol = 1e-12 * np.abs(y[ok]) if name == "log" else (1e-9 * np.abs(y[ok]) if tiny else 1e-9 * (1 + np.abs(y[ok])))
    bad = np.abs(y2[ok] - y[ok]) > tol
    if bad.any():
        i = int(np.nonzero(bad)[0][0])
        raise Violation("function:not-undone", "%r then its reciprocal (%r): %r -> %r -> %r" % (
            name, getattr(t, "fct_inv_", None) if isinstance(getattr(t, "fct_inv_", None), str) else "callable",
            float(y[ok][i]), float(np.asarray(y1, dtype=np.float64)[ok][i]), float(y2[ok][i])), facts)
    # y=None passes through
    Xn, yn = t.transform(X, None)
    require(yn is None and np.array_equal(np.asarray(Xn), np.asarray(X0)), "transform:none", "", facts)
    return Outcome([name, "2d" if case["two_d"] else "1d", "has-nan" if (~ok).any() else "no-nan",
                    "known-name" if name in DOMAINS else "unknown-name", "tiny-targets" if tiny else "ordinary-targets"], True, key=dict(case, name=name))


def _neg_sqrt(z):
    return -np.sqrt(z)


def _upper_arccos(z):
    return 2 * np.pi - np.arccos(z)


# one forward function, two reciprocals: one per branch of its domain
BRANCHES = {"square": (np.square, [(np.sqrt, 0.0, 9.0), (_neg_sqrt, -9.0, 0.0)]),
            "cos": (np.cos, [(np.arccos, 0.05, 3.0), (_upper_arccos, 3.3, 6.2)])}


def check_branches(case):
    """two transformers alive in one process, built on the SAME forward callable with different reciprocals (a non-injective function
    used on two branches of its domain): each is undone by its own reciprocal, whatever the order in which they were built and asked"""
    f, branches = BRANCHES[case["function"]]
    order = case["order"]
    ts, ys = [], []
    for b in order:
        g, lo, hi = branches[b]
        u = np.array(case["units"][b], dtype=np.float64)
        y = lo + (hi - lo) * u
        if case["two_d"]:
            y = y.reshape(-1, 1)
        ts.append(_fct.FunctionReciprocalTransformer(f, g))
        ys.append(y)
    facts = dict(function=case["function"], order=order, ask=case["ask"])
    X = np.zeros((len(ys[0]), 1))
    for t, y in zip(ts, ys):
        t.fit(X, y)
    invs = [None] * len(ts)
    for i in case["ask"]:
        invs[i % len(ts)] = ts[i % len(ts)].get_fct_inv()
    for i, (t, y) in enumerate(zip(ts, ys)):
        inv = invs[i] if invs[i] is not None else t.get_fct_inv()
        _, y1 = t.transform(X[:len(y)], y)
        _, y2 = inv.transform(X[:len(y)], y1)
        y2 = np.asarray(y2, dtype=np.float64)
        bad = np.abs(y2 - y) > 1e-6 * (1 + np.abs(y))
        if bad.any():
            j = int(np.nonzero(bad.ravel())[0][0])
            raise Violation("function:not-undone:two-instances", "%s with reciprocal #%d (instance %d of %d built on the same forward callable): %r -> %r -> %r" % (
                case["function"], order[i], i, len(ts), float(y.ravel()[j]), float(np.asarray(y1, dtype=np.float64).ravel()[j]), float(y2.ravel()[j])), dict(facts, instance=i))
    return Outcome([case["function"], "order=%s" % "".join(map(str, order)), "2d" if case["two_d"] else "1d"], len(set(order)) >= 2)


@st.composite
def _branch_cases(draw, tier="quick"):
    n = draw(st.integers(1, 8))
    order = draw(st.sampled_from([[0, 1], [1, 0], [0, 1, 0], [1, 1, 0], [0, 0]]))
    unit = st.integers(1, 999).map(lambda v: v / 1000.0)
    return dict(function=draw(st.sampled_from(["square", "cos"])), order=order, two_d=draw(st.booleans()),
                units=[draw(st.lists(unit, min_size=n, max_size=n)), draw(st.lists(unit, min_size=n, max_size=n))],
                ask=draw(st.lists(st.integers(0, 2), max_size=4)))


@st.composite
def _function_cases(draw, tier="quick"):
    n = draw(st.integers(1, 12))
    units = [draw(st.one_of(st.integers(0, 10**6).map(lambda v: v / 1e6), st.integers(0, 10**6).map(lambda v: v / 1e6),
                            st.integers(0, 10**6).map(lambda v: v / 1e6), st.none())) for _ in range(n)]
    if draw(st.booleans()):
        units[draw(st.integers(0, n - 1))] = draw(st.sampled_from([0.0, 1.0]))
    d = draw(st.integers(1, 2))
    return dict(name_index=draw(st.integers(0, 11)), units=units, two_d=draw(st.booleans()),
                X=[[draw(st.integers(-40, 40)) / 4.0 for _ in range(d)] for _ in range(n)],
                xkind=draw(st.sampled_from(["float", "float", "int", "frame"])), as_callables=draw(st.integers(0, 3)) == 0, tiny=draw(st.booleans()))


# ------------------------------------------------------------------------- permutations
def _label_array(case):
    kind = case["label_kind"]
    pool = case["pool"]
    z = case["z"]
    if kind == "int":
        return np.array([pool[i] for i in z], dtype=np.int64)
    if kind == "int32":
        return np.array([pool[i] for i in z], dtype=np.int32)
    if kind == "int-big":
        # 64-bit identifiers / nanosecond timestamps: distinct integers beyond 2**53, several of which are one and the same double
        return np.array([2 ** 53 + 1000 + pool[i] for i in z], dtype=np.int64)
    if kind == "float":
        return np.array([np.nan if i is None else pool[i] + 0.5 for i in z], dtype=np.float64)
    if kind == "float-integral":      # the only float labels scikit-learn classifiers accept
        return np.array([float(pool[i]) for i in z], dtype=np.float64)
    if kind == "str-object":
        a = np.empty(len(z), dtype=object)
        for j, i in enumerate(z):
            a[j] = "L%s" % pool[i]
        return a
    return np.array(["L%s" % pool[i] for i in z])          # fixed width '<U'


def _same_labels(a, b):
    a, b = np.asarray(a), np.asarray(b)
    if a.shape != b.shape:
        return False
    for u, v in zip(a.ravel().tolist(), b.ravel().tolist()):
        if isinstance(u, float) and np.isnan(u):
            if not (isinstance(v, float) and np.isnan(v)):
                return False
        elif u != v:
            return False
    return True


def _shape_labels(y, layout, m):
    """integer labels may come as a 2-D target (several outputs): row-major, column-major (what DataFrame.values gives) or a transposed view"""
    if layout in (None, "1d"):
        return y
    if layout == "1d-strided":
        return np.repeat(y, 2)[::2]
    m = max(1, min(m, len(y)))
    rows = len(y) // m
    Y = y[:rows * m].reshape(rows, m)
    if layout == "2d-F":
        return np.asfortranarray(Y)
    if layout == "2d-T":
        return np.ascontiguousarray(Y.T).T
    return Y


def check_permutation(case):
    y = _shape_labels(_label_array(case), case.get("layout"), case.get("cols", 2))
    facts = dict(label_kind=case["label_kind"], n_classes=len(set(i for i in case["z"] if i is not None)))
    closest = bool(case.get("closest")) and case["label_kind"] in ("int", "float", "int-big") and not any(i is None for i in case["z"]) and y.ndim == 1
    t = _fct.PermutationReciprocalTransformer(random_state=case["random_state"], closest=closest)
    np.random.seed(case["seed"])
    if case.get("first") is not None:
        # the same instance was fitted on other labels before and its reciprocal was already requested:
        # "every fitted permutation" includes the one of a refit
        y_first = _label_array(dict(case, z=case["first"]["z"], pool=case["first"]["pool"]))
        t.fit(None, y_first)
        inv_first = t.get_fct_inv()
        inv_first.transform(None, t.transform(None, y_first)[1])
        facts["refit"] = True
    y0 = y.copy()
    r = t.fit(None, y)
    require(r is t or r is None, "fit:return", "%r" % type(r), facts)     # 'fit returns self' belongs to C02
    perm = dict(t.permutation_)
    distinct = [v for v in dict.fromkeys(y.ravel().tolist()) if not (isinstance(v, float) and np.isnan(v))]
    facts["layout"] = case.get("layout") or "1d"
    require(len(perm) == len(distinct), "permutation:size", "%r for labels %r" % (perm, distinct), facts)
    require(sorted(int(v) for v in perm.values()) == list(range(len(distinct))), "permutation:not-a-bijection", "%r" % (perm,), facts)
    if closest:
        # closest=True: values never seen by fit are coded like the nearest seen label; asking for them (noisy test targets looked at in
        # the transformed space) is a read-only operation: the fitted permutation stays the bijection of the SEEN labels
        extra = np.array([v + (0.25 if case["label_kind"] == "float" else 0) for v in case.get("unseen", [])], dtype=y.dtype)
        extra = np.array([v for v in extra.tolist() if v not in perm], dtype=y.dtype)
        if len(extra):
            codes_u = np.asarray(t.transform(None, extra)[1])
            require(set(int(c) for c in codes_u.tolist()) <= set(int(v) for v in perm.values()), "closest:code-not-of-a-seen-label", "%r" % codes_u.tolist(), facts)
            require({k: int(v) for k, v in t.permutation_.items()} == {k: int(v) for k, v in perm.items()}, "closest:transform-changes-permutation",
                    "permutation_ after transforming unseen values %r: %r, after fit: %r" % (extra.tolist(), dict(t.permutation_), perm), facts)
        facts["closest"] = True
    X = np.arange(len(y), dtype=np.float64).reshape(-1, 1)
    X1, y1 = t.transform(X, y)
    require(_same_labels(y, y0), "input-modified", "", facts)
    inv = t.get_fct_inv()
    X2, y2 = inv.transform(X1, y1)
    require(np.array_equal(np.asarray(X2), X), "features-changed", "", facts)
    require(_same_labels(y2, y0), "permutation:not-undone", "labels %r -> %r -> %r (permutation %r)" % (
        y0.tolist()[:8], np.asarray(y1).tolist()[:8], np.asarray(y2).tolist()[:8], perm), facts)
    # codes really follow the permutation, cell by cell
    require(np.asarray(y1).shape == y0.shape, "permutation:shape", "%r -> %r" % (y0.shape, np.asarray(y1).shape), facts)
    for u, c in zip(y0.ravel().tolist(), np.asarray(y1).ravel().tolist()):
        if isinstance(u, float) and np.isnan(u):
            require(isinstance(c, float) and np.isnan(c), "permutation:nan-not-kept", "", facts)
        else:
            require(int(c) == int(perm[u]), "permutation:code-differs", "label %r coded %r, permutation_ says %r" % (u, c, perm[u]), facts)
    first_seen = {u: i for i, u in enumerate(distinct)}
    identity = all(int(perm[u]) == first_seen[u] for u in distinct)
    return Outcome([case["label_kind"], "identity" if identity else "non-identity", "classes=%d" % len(distinct),
                    "has-nan" if any(i is None for i in case["z"]) else "no-nan", "refit" if case.get("first") else "first-fit",
                    "layout=" + (case.get("layout") or "1d"), "closest" if closest else "exact"], not identity)


@st.composite
def _perm_cases(draw, tier="quick", kinds=("int", "int32", "float", "str-object", "str-fixed", "int-big")):
    kind = draw(st.sampled_from(list(kinds)))
    k = draw(st.integers(2, 6))
    pool = draw(st.lists(st.integers(-9, 30), min_size=k, max_size=k, unique=True))
    n = draw(st.integers(k, 20))
    z = [draw(st.integers(0, k - 1)) for _ in range(n)]
    for i in range(k):
        z[i] = i
    z = list(draw(st.permutations(z)))
    if kind == "float" and draw(st.booleans()):
        z[draw(st.integers(0, n - 1))] = None
        if all(v is None for v in z):
            z[0] = 0
    first = None
    if draw(st.integers(0, 2)) == 0:
        k1 = draw(st.integers(2, 6))
        pool1 = draw(st.lists(st.integers(-9, 30), min_size=k1, max_size=k1, unique=True))
        z1 = [draw(st.integers(0, k1 - 1)) for _ in range(draw(st.integers(k1, 12)))]
        for i in range(k1):
            z1[i] = i
        first = dict(pool=pool1, z=list(draw(st.permutations(z1))))
    layout = "1d"
    if kind in ("int", "int32"):
        layout = draw(st.sampled_from(["1d", "1d-strided", "2d-C", "2d-F", "2d-T"]))
    return dict(label_kind=kind, pool=pool, z=z, random_state=draw(st.one_of(st.none(), st.integers(0, 200))), seed=draw(st.integers(0, 2**31 - 2)), first=first,
                layout=layout, cols=draw(st.integers(2, 3)), closest=draw(st.integers(0, 2)) == 0,
                unseen=[draw(st.integers(-15, 40)) for _ in range(draw(st.integers(1, 4)))])


# ------------------------------------------------------------------------- regressor
def check_regressor(case):
    names = [n for n in _names() if n in NUMPY]
    name = names[case["name_index"] % len(names)]
    f, finv = NUMPY[name]
    X = np.array(case["X"], dtype=np.float64)
    n = len(X)
    y = _y_from_unit(name, case["units"][:n])
    Q = np.vstack([np.array(case["Q"], dtype=np.float64).reshape(-1, X.shape[1]), X[:3]])
    # 'kwargs': a duck-typed regressor whose fit takes the weights through **kwargs (nothing named sample_weight in its signature)
    reg = {"linear": LinearRegression(), "tree": DecisionTreeRegressor(max_depth=3, random_state=0), "kwargs": KwargsRegressor(tag=1)}[case["reg"]]
    facts = dict(name=name, reg=case["reg"])
    m = _tp.TransformedTargetRegressor2(regressor=reg, transformer=name)
    r = m.fit(X, y)
    require(r is m, "fit:not-self", "", facts)
    with np.errstate(all="ignore"):
        got = np.asarray(m.predict(Q), dtype=np.float64)
        ref = finv(clone(reg).fit(X, f(y)).predict(Q))
    require(got.shape == ref.shape, "regressor:shape", "", facts)
    same = np.isclose(got, ref, rtol=1e-12, atol=1e-12, equal_nan=True) | (np.isinf(got) & np.isinf(ref) & (np.sign(got) == np.sign(ref)))
    if not same.all():
        i = int(np.nonzero(~same)[0][0])
        raise Violation("regressor:not-inverse-of-inner-prediction", "transformer %r: predict gives %r, f^-1(inner prediction) = %r" % (name, float(got[i]), float(ref[i])), facts)
    # the same instance reconfigured with another function name and fitted again (optionally with weights)
    name2 = names[case.get("name_index2", 0) % len(names)]
    f2_, finv2 = NUMPY[name2]
    y2 = _y_from_unit(name2, case["units"][:n])
    sw = None
    if case.get("weights"):
        sw = np.array(case["weights"][:n], dtype=np.float64)
    m.set_params(transformer=name2)
    kw = {} if sw is None else dict(sample_weight=sw)
    m.fit(X, y2, **kw)
    with np.errstate(all="ignore"):
        got2 = np.asarray(m.predict(Q), dtype=np.float64)
        ref2 = finv2(clone(reg).fit(X, f2_(y2), **kw).predict(Q))
    same2 = np.isclose(got2, ref2, rtol=1e-12, atol=1e-12, equal_nan=True) | (np.isinf(got2) & np.isinf(ref2) & (np.sign(got2) == np.sign(ref2)))
    if not same2.all():
        i = int(np.nonzero(~same2)[0][0])
        raise Violation("regressor:not-inverse-of-inner-prediction:after-refit", "second fit with transformer %r (first %r, weights %s): predict gives %r, expected %r" % (
            name2, name, sw is not None, float(got2[i]), float(ref2[i])), dict(facts, name2=name2, weights=sw is not None))
    return Outcome([name, case["reg"], "nan-pred" if np.isnan(ref).any() else "finite", "second=" + name2, "weights" if sw is not None else "no-weights"], True)


@st.composite
def _reg_cases(draw, tier="quick"):
    n = draw(st.integers(4, 20))
    d = draw(st.integers(1, 2))
    return dict(name_index=draw(st.integers(0, 11)), name_index2=draw(st.integers(0, 11)),
                weights=draw(st.one_of(st.none(), st.lists(st.integers(1, 8).map(lambda v: v / 2.0), min_size=20, max_size=20))),
                units=[draw(st.integers(0, 10**6)) / 1e6 for _ in range(20)],
                X=[[draw(st.integers(-40, 40)) / 4.0 for _ in range(d)] for _ in range(n)],
                Q=[[draw(st.integers(-40, 40)) / 4.0 for _ in range(d)] for _ in range(draw(st.integers(1, 6)))],
                reg=draw(st.sampled_from(["linear", "tree", "kwargs"])))


# ------------------------------------------------------------------------- classifier
def check_classifier(case):
    y = _label_array(case)
    n = len(y)
    X = np.array(case["X"], dtype=np.float64)[:n]
    if case.get("tie"):
        # two classes made of the very same points: their probabilities tie exactly everywhere, whichever way the labels are coded
        zz = [i for i, zi in enumerate(case["z"][:n]) if zi in (0, 1)]
        if zz:
            X[zz] = X[zz[0]]
    Q = np.vstack([np.array(case["Q"], dtype=np.float64).reshape(-1, X.shape[1]), X[:4]])
    lk = case["learner"]
    learner = {"centroid": CentroidClassifier(), "gnb": GaussianNB(), "logreg": LogisticRegression(max_iter=5000, C=1.0, tol=1e-10),
               "kwargs-centroid": KwargsClassifier(), "biased": BiasedClassifier()}[lk]
    tol = {"centroid": 1e-9, "gnb": 1e-6, "logreg": 1e-3, "kwargs-centroid": 1e-9, "biased": 1e-9}[lk]
    sw = None if not case.get("weights") else np.array(case["weights"], dtype=np.float64)[:n]
    kw = {} if sw is None else dict(sample_weight=sw)
    facts = dict(learner=lk, label_kind=case["label_kind"], transformer=case["transformer"])
    tr = "permute" if case["transformer"] == "permute" else _fct.PermutationReciprocalTransformer(random_state=case["random_state"])
    np.random.seed(case["seed"])
    m = _tp.TransformedTargetClassifier2(classifier=learner, transformer=tr)
    facts["weights"] = sw is not None
    r = m.fit(X, y, **kw)
    require(r is m, "fit:not-self", "", facts)
    plain = clone(learner).fit(X, y, **kw)
    labels = sorted(set(y.tolist()))
    classes = list(np.asarray(m.classes_).tolist())
    require(sorted(classes) == labels, "classes_:not-the-label-set", "%r vs labels %r" % (classes, labels), facts)
    pred = np.asarray(m.predict(Q))
    ppred = np.asarray(plain.predict(Q))
    require(set(pred.tolist()) <= set(labels), "predict:not-original-labels", "%r" % sorted(set(pred.tolist())), facts)
    # predict is the inner classifier's own predict, mapped back to the original labels (ties and classifiers whose predict is not the
    # argmax of predict_proba included)
    inner_codes = np.asarray(m.classifier_.predict(Q))
    back = np.asarray(m.transformer_.get_fct_inv().transform(None, inner_codes)[1])
    require(back.shape == pred.shape and bool(np.all(back == pred)), "predict:not-inverse-of-inner-predict",
            "predict gives %r, the inner classifier's predictions mapped back give %r" % (pred.tolist()[:8], back.tolist()[:8]), facts)
    if not isinstance(tr, str):
        # the transformer INSTANCE given to this model is given to a second one trained on the labels in reverse order of appearance
        # (one transformer object re-used in a loop): the first model keeps its own mapping
        try:
            m_other = _tp.TransformedTargetClassifier2(classifier=clone(learner), transformer=tr)
            m_other.fit(X[::-1], y[::-1])
        except Exception:  # noqa: BLE001
            pass
        pred_again = np.asarray(m.predict(Q))
        require(pred_again.shape == pred.shape and bool(np.all(pred_again == pred)) and list(np.asarray(m.classes_).tolist()) == classes,
                "predict:moved-by-another-model-on-the-same-transformer-instance",
                "after a second model was trained with the same transformer object, predict gives %r instead of %r" % (pred_again.tolist()[:8], pred.tolist()[:8]), facts)
    P = np.asarray(m.predict_proba(Q), dtype=np.float64)
    PP = np.asarray(plain.predict_proba(Q), dtype=np.float64)
    pl_classes = list(plain.classes_.tolist())
    require(P.shape == PP.shape, "proba:shape", "%r vs %r" % (P.shape, PP.shape), facts)
    perm = dict(m.transformer_.permutation_)
    distinct = list(dict.fromkeys(y.tolist()))
    identity = all(int(perm[u]) == i for i, u in enumerate(distinct))
    sorted_identity = all(int(perm[u]) == i for i, u in enumerate(labels))
    facts["identity"] = identity
    for j, lab in enumerate(classes):
        ref = PP[:, pl_classes.index(lab)]
        with np.errstate(all="ignore"):
            same = (np.abs(P[:, j] - ref) <= tol) | (np.isnan(P[:, j]) & np.isnan(ref))
        if not bool(np.all(same)):
            raise Violation("proba:column-is-not-classes_[j]", "column %d is announced as label %r by classes_ (=%r) but differs from the plain "
                            "classifier's probability of %r; permutation %r" % (j, lab, classes, lab, perm), facts)
    # predictions agree wherever the plain classifier is not tied within tol
    srt = np.sort(PP, axis=1)
    with np.errstate(all="ignore"):
        clear = (srt[:, -1] - srt[:, -2]) > 10 * tol if PP.shape[1] > 1 else np.ones(len(PP), dtype=bool)
    clear = clear & ~np.isnan(PP).any(axis=1)
    require(lk == "biased" or bool(np.all(pred[clear] == ppred[clear])), "predict:differs-from-plain", "%r vs %r" % (pred[clear].tolist()[:6], ppred[clear].tolist()[:6]), facts)
    return Outcome([lk, case["label_kind"], case["transformer"], "identity" if identity else "non-identity",
                    "code-order==label-order" if sorted_identity else "code-order!=label-order", "classes=%d" % len(labels),
                    "weights" if sw is not None else "no-weights", "tied-classes" if case.get("tie") else "no-tie"], not sorted_identity)


@st.composite
def _clf_cases(draw, tier="quick"):
    base = draw(_perm_cases(tier, kinds=("int", "int32", "float-integral", "str-object", "str-fixed")))
    base["z"] = [0 if v is None else v for v in base["z"]]
    n = len(base["z"])
    k = len(base["pool"])
    d = draw(st.integers(1, 2))
    centres = [[draw(st.integers(-20, 20)) / 2.0 for _ in range(d)] for _ in range(k)]
    X = [[centres[zi][j] + draw(st.integers(-8, 8)) / 8.0 for j in range(d)] for zi in base["z"]]
    base.update(X=X, Q=[[draw(st.integers(-24, 24)) / 2.0 for _ in range(d)] for _ in range(draw(st.integers(1, 8)))],
                learner=draw(st.sampled_from(["centroid", "centroid", "gnb", "logreg", "kwargs-centroid", "biased"])),
                weights=draw(st.one_of(st.none(), st.lists(st.integers(1, 12).map(lambda v: v / 2.0), min_size=20, max_size=20))),
                transformer=draw(st.sampled_from(["permute", "object"])), tie=draw(st.integers(0, 3)) == 0)
    return base


CLAUSES = [
    Clause("function-roundtrip", check_function, strategy=lambda tier: _function_cases(tier), quick=2400, thorough=40000, quick_shards=8,
           doc="every predefined function name is undone by get_fct_inv(); NaN kept; X untouched"),
    Clause("function-branches", check_branches, strategy=lambda tier: _branch_cases(tier), quick=400, thorough=6000, quick_shards=2,
           doc="two transformers built on one forward callable with different reciprocals are each undone by their own"),
    Clause("permutation-roundtrip", check_permutation, strategy=lambda tier: _perm_cases(tier), quick=2400, thorough=40000, quick_shards=8,
           doc="fitted permutation undone by get_fct_inv() for int / float+NaN / string labels"),
    Clause("regressor", check_regressor, strategy=lambda tier: _reg_cases(tier), quick=800, thorough=12000, quick_shards=4,
           doc="TransformedTargetRegressor2.predict == f^-1(inner prediction)"),
    Clause("classifier", check_classifier, strategy=lambda tier: _clf_cases(tier), quick=900, thorough=12000, quick_shards=8,
           doc="TransformedTargetClassifier2 vs the plain classifier; classes_[j] labels probability column j"),
]
