"""C08 - piecewise estimators: a partition by the binner with one local model per bucket."""
from vf import loader
from vf.core import Clause, Outcome, Violation, require, with_sk
from vf.estimators import RecordingRegressor, RecordingClassifier, BiasedClassifier

import numpy as np
import pandas
from hypothesis import strategies as st
from sklearn.dummy import DummyRegressor
from sklearn.linear_model import LinearRegression, LogisticRegression
from sklearn.preprocessing import KBinsDiscretizer
from sklearn.tree import DecisionTreeClassifier, DecisionTreeRegressor

PROPERTY = "C08"
RULE = ("Hypothesis draws dyadic data (n 4..40, d 1..3), a binner in {DecisionTree of generated depth/min_samples_leaf, 'bins', "
        "KBinsDiscretizer(n_bins 2..4, uniform|quantile|kmeans, default one-hot output)}, a local estimator in {recording model, "
        "LinearRegression, DummyRegressor | LogisticRegression, small tree}, optional positive weights, n_jobs in {None,1,2,4}, integer "
        "class labels (negative / non-contiguous, 2..4 classes, buckets missing a class occur), and a query batch that contains "
        "training rows, far rows and rows in discretizer cells unseen at training time; the training table is an array or a DataFrame, the query an array "
        "(float64, float32, int64) or a DataFrame, targets and weights arrays or pandas Series with a permuted integer index. Oracles: (partition) bucket ids vs the fitted "
        "binner's public apply()/transform(); (training-sets) recording local models saw exactly their bucket's (x,y,w) multiset, "
        "plus exactly one borrowed training row per missing class for the classifier, fallback saw everything; (dispatch) every output "
        "row equals its bucket model's (or the fallback's) own output on that row; (n_jobs) outputs equal those of n_jobs=None; "
        "(proba) rows are distributions over classes_, labels in classes_. Non-trivial: >=2 buckets and (unseen bucket in the query, "
        "or a bucket missing a class, or weights, or n_jobs>1). Distinct = distinct case JSON.")
ASSUMPTIONS = ["KBinsDiscretizer with its default one-hot sparse output (the only encoding the code's todense() accepts)",
               "integer class labels (predict casts to int32)",
               "thread schedules of joblib are perturbed by yield points inside the recording estimators, not enumerated: a violation "
               "needing one specific interleaving can be missed"]
TOLERANCES = {"dispatch": "exact on the bucket sub-batch; 1e-9 relative row by row (BLAS results depend on batch size at 1e-16)", "n_jobs": "exact", "proba sums": "1e-9"}

_mod = loader.module("mlmodel.piecewise_estimator")


def _binner(spec, classifier):
    if spec["kind"] == "tree":
        cls = DecisionTreeClassifier if classifier else DecisionTreeRegressor
        return cls(max_depth=spec["max_depth"], min_samples_leaf=spec["min_samples_leaf"], random_state=0)
    if spec["kind"] == "bins":
        return "bins"
    return KBinsDiscretizer(n_bins=spec["n_bins"], strategy=spec["strategy"])


def _estimator(spec, classifier):
    k = spec["kind"]
    if k == "recording":
        cls = RecordingClassifier if classifier else RecordingRegressor
        return cls(tag=spec.get("tag", 0), yield_fit=spec.get("yield_fit", 0), yield_predict=spec.get("yield_predict", 0))
    if classifier:
        if k == "logreg":
            return LogisticRegression(C=spec.get("C", 1.0), max_iter=200)
        if k == "biased":
            return BiasedClassifier()            # predict is deliberately not the argmax of predict_proba (a moved decision threshold)
        return DecisionTreeClassifier(max_depth=2, random_state=0)
    if k == "linear":
        return LinearRegression()
    return DummyRegressor()


def _ref_buckets(binner_, X):
    if hasattr(binner_, "tree_"):
        return [int(v) for v in binner_.apply(X)]
    tr = binner_.transform(X)
    return [tuple(np.asarray(r.todense()).ravel().astype(int).tolist()) for r in tr]


def _rows_sorted(X, y, w):
    cols = [np.asarray(X, dtype=np.float64).reshape(len(y), -1), np.asarray(y, dtype=np.float64).reshape(-1, 1)]
    if w is not None:
        cols.append(np.asarray(w, dtype=np.float64).reshape(-1, 1))
    M = np.hstack(cols)
    if len(M) == 0:
        return M
    order = np.lexsort(M.T[::-1])
    return M[order]


def _build(case):
    classifier = case["classifier"]
    X = np.array(case["X"], dtype=np.float64)
    n = len(X)
    if classifier:
        y = np.array(case["labels"][:n], dtype=np.int64)
    else:
        y = X @ np.array(case["beta"][:X.shape[1]]) + np.array(case["ynoise"][:n])
    w = None if case["w"] is None else np.array(case["w"][:n], dtype=np.float64)
    if w is not None and case.get("wconst"):
        w = np.full(n, float(case["wconst"]))        # every row the same weight, not 1: still the weights the local models must be given
    if w is not None:
        for zi in case.get("zero_w", []):
            w[zi % n] = 0.0            # a row of weight zero still belongs to its bucket's training set
    Q = np.vstack([np.array(case["Q"], dtype=np.float64).reshape(-1, X.shape[1]), X[:: max(1, n // 5)]])
    qk = case.get("qkind", "float64")
    if qk in ("float32", "int64"):
        # a query batch that is not float64 (integer features, a float32 pipeline): same statement, the bucket model answers for its rows
        Q = (np.round(Q) if qk == "int64" else Q).astype(qk)
    return X, y, w, Q


def _new_model(case, n_jobs):
    cls = _mod.PiecewiseClassifier if case["classifier"] else _mod.PiecewiseRegressor
    kw = dict(binner=_binner(case["binner"], case["classifier"]), estimator=_estimator(case["estimator"], case["classifier"]), n_jobs=n_jobs)
    if case.get("verbose"):
        kw["verbose"] = True             # progress messages (silenced by the harness) are all it may change
    if case["classifier"]:
        kw["random_state"] = case["random_state"]
    return cls(**kw)


def _methods(case, model):
    if not case["classifier"]:
        return ["predict"]
    ms = ["predict", "predict_proba"]
    if hasattr(model.estimators_[0], "decision_function") and hasattr(model.mean_estimator_, "decision_function"):
        try:
            model.mean_estimator_.decision_function(np.zeros((1, model.mean_estimator_.n_features_in_)))
            ms.append("decision_function")
        except Exception:  # noqa: BLE001
            pass
    return ms


def _big(case):
    """a training table in which every (bucket, class) pair holds an exact multiple of 256 examples: the first rows of the drawn table
    repeated 256 times (plain arrays, no zero weight)"""
    m = min(len(case["X"]), 6)
    rep = 256
    return dict(case, X=[list(r) for r in case["X"][:m]] * rep, labels=None if case["labels"] is None else list(case["labels"][:m]) * rep,
                ynoise=list(case["ynoise"][:m]) * rep, w=None if case["w"] is None else list(case["w"][:m]) * rep,
                xkind="array", ykind="array", zero_w=[], index_perm=list(range(m * rep)), two_callers=False)


def check(case):
    if case.get("big"):
        case = _big(case)
    X, y, w, Q = _build(case)
    n, d = X.shape
    classifier = case["classifier"]
    facts = dict(classifier=classifier, binner=case["binner"]["kind"], estimator=case["estimator"]["kind"], n_jobs=case["n_jobs"],
                 weights=w is not None)
    np.random.seed(case["seed"])
    m = _new_model(case, case["n_jobs"])
    X0, y0, w0 = X.copy(), y.copy(), None if w is None else w.copy()
    # training and query tables may come as DataFrames (fit and predict take their .values)
    cols = ["c%d" % j for j in range(d)]
    Xin = pandas.DataFrame(X, columns=cols) if case.get("xkind") == "frame" else X
    Qin = pandas.DataFrame(Q, columns=cols) if case.get("qkind") == "frame" else Q
    facts.update(xkind=case.get("xkind", "array"), qkind=case.get("qkind", "float64"))
    yin, win = y, w
    if case.get("ykind") == "series":
        # targets and weights as pandas Series whose index is not 0..n-1 in order (a frame that was shuffled and not re-indexed):
        # rows are still matched by position, as for any scikit-learn estimator
        idx = np.array(case["index_perm"][:n]) if len(case.get("index_perm", [])) >= n else np.arange(n)[::-1]
        idx = np.argsort(np.argsort(idx[:n], kind="stable"), kind="stable")          # a permutation of 0..n-1
        yin = pandas.Series(y, index=idx)
        win = None if w is None else pandas.Series(w, index=idx)
    facts["ykind"] = case.get("ykind", "array")
    import contextlib
    import io
    quiet = contextlib.ExitStack()
    if case.get("verbose"):
        quiet.enter_context(contextlib.redirect_stdout(io.StringIO()))
        quiet.enter_context(contextlib.redirect_stderr(io.StringIO()))
    try:
        with quiet:
            r = m.fit(Xin, yin, sample_weight=win)
    except Exception as e:  # noqa: BLE001
        # a bucket (or a discretizer) whose rows all weigh zero: the inner scikit-learn estimator refuses such a training set itself; with
        # verbose=True joblib's progress printing may fail in turn while that refusal propagates (AttributeError / IndexError raised in
        # joblib with the refusal as its context)
        chain, cur = [], e
        while cur is not None and len(chain) < 6:
            chain.append(cur)
            cur = cur.__cause__ or cur.__context__
        if w is not None and (w == 0).any() and any(isinstance(x, ValueError) and "at least one non-zero" in str(x) for x in chain):
            return Outcome(["inner-estimator-refuses-all-zero-weights"], False)
        if w is not None and (w == 0).any():
            # ... or scikit-learn's own binner fails on the weighted table (KBinsDiscretizer with a zero weight among four rows computes
            # zero bins and then indexes an empty array): the failure starts and ends inside scikit-learn
            import traceback
            tb = traceback.extract_tb(e.__traceback__)
            if tb and "site-packages" in tb[-1].filename and "/sklearn/" in tb[-1].filename:
                return Outcome(["scikit-learn-component-fails-on-zero-weights"], False)
        raise
    require(r is m, "fit:not-self", "", facts)
    require(np.array_equal(X, X0) and np.array_equal(y, y0) and (w is None or np.array_equal(w, w0)), "input-modified", "", facts)

    # ---- partition
    ref_tr = _ref_buckets(m.binner_, X)
    ids_tr = np.asarray(m.transform_bins(X))
    require(ids_tr.shape == (n,), "transform_bins:shape", "%r" % (ids_tr.shape,), facts)
    require(bool(np.all(ids_tr >= 0)), "transform_bins:training-row-unassigned", "ids %r" % ids_tr.tolist(), facts)
    require(bool(np.all(ids_tr == np.round(ids_tr))), "transform_bins:not-integer", "", facts)
    b2id = {}
    for b, i in zip(ref_tr, ids_tr.astype(int).tolist()):
        require(b2id.setdefault(b, i) == i, "partition:one-bucket-two-ids", "reference bucket %r got ids %r and %r" % (b, b2id[b], i), facts)
    require(len(set(b2id.values())) == len(b2id), "partition:two-buckets-one-id", "%r" % (b2id,), facts)
    nb = len(b2id)
    require(m.n_estimators_ == nb and len(m.estimators_) == nb, "n_estimators", "%d local models for %d non-empty training buckets" % (len(m.estimators_), nb), facts)
    require(sorted(b2id.values()) == list(range(nb)), "partition:ids-not-0..k-1", "%r" % sorted(b2id.values()), facts)
    ref_q = _ref_buckets(m.binner_, Q)
    ids_q = np.asarray(m.transform_bins(Qin)).astype(int)
    for b, i in zip(ref_q, ids_q.tolist()):
        require(i == b2id.get(b, -1), "transform_bins:query-row", "reference bucket %r (training id %r) mapped to %r" % (b, b2id.get(b, -1), i), facts)
    unseen = bool(np.any(ids_q == -1))

    # ---- training sets (recording local models)
    missing_class = False
    if case["estimator"]["kind"] == "recording":
        allrows = _rows_sorted(X, y, w)
        me = m.mean_estimator_
        require(np.array_equal(_rows_sorted(me.seen_X_, me.seen_y_, me.seen_w_), allrows) and (me.seen_w_ is None) == (w is None),
                "fallback:training-set", "the fallback model did not see exactly the whole training set", facts)
        classes = sorted(set(y.tolist())) if classifier else None
        for b, i in b2id.items():
            est = m.estimators_[i]
            ind = ids_tr.astype(int) == i
            require(hasattr(est, "seen_X_"), "local-model:not-fitted", "bucket %d" % i, facts)
            require((est.seen_w_ is None) == (w is None), "local-model:weights-dropped", "bucket %d" % i, facts)
            seen = _rows_sorted(est.seen_X_, est.seen_y_, est.seen_w_)
            own = _rows_sorted(X[ind], y[ind], None if w is None else w[ind])
            if not classifier:
                require(seen.shape == own.shape and np.array_equal(seen, own), "local-model:training-set",
                        "bucket %d: saw %d rows, bucket has %d; seen=%r bucket=%r" % (i, len(seen), len(own), seen.tolist()[:6], own.tolist()[:6]), facts)
            else:
                miss = sorted(set(classes) - set(y[ind].tolist()))
                if miss:
                    missing_class = True
                require(len(seen) == len(own) + len(miss), "local-model:training-set-size",
                        "bucket %d: saw %d rows, bucket has %d and misses classes %r" % (i, len(seen), len(own), miss), dict(facts, missing=len(miss)))
                # remove the bucket's own rows from what was seen -> borrowed rows
                seen_l = [tuple(r) for r in seen.tolist()]
                for r_ in [tuple(r) for r in own.tolist()]:
                    require(r_ in seen_l, "local-model:bucket-row-missing", "bucket %d: row %r of the bucket was not seen" % (i, r_), facts)
                    seen_l.remove(r_)
                ycol = d
                require(sorted(int(r_[ycol]) for r_ in seen_l) == miss, "local-model:borrowed-classes",
                        "bucket %d borrowed labels %r, missing classes %r" % (i, [r_[ycol] for r_ in seen_l], miss), facts)
                all_l = [tuple(r) for r in allrows.tolist()]
                for r_ in seen_l:
                    require(r_ in all_l, "local-model:borrowed-not-a-training-row", "%r" % (r_,), facts)

    # ---- dispatch
    for meth in _methods(case, m):
        out = np.asarray(getattr(m, meth)(Qin))
        require(len(out) == len(Q), "dispatch:length:" + meth, "", facts)
        # exact on the bucket's sub-batch (same estimator, same rows, same arithmetic) ...
        for bid in sorted(set(ids_q.tolist())):
            est = m.mean_estimator_ if bid == -1 else m.estimators_[bid]
            sel = ids_q == bid
            exp = np.asarray(getattr(est, meth)(Q[sel]))
            if meth == "predict" and classifier:
                exp = exp.astype(np.int32)
            got = out[sel]
            ok = got.shape == exp.shape and np.array_equal(got, exp)
            if not ok:
                j = int(np.nonzero(sel)[0][0])
                raise Violation("dispatch:" + meth + (":fallback" if bid == -1 else ":bucket"),
                                "rows of bucket id %d (first is row %d): %r, its model answers %r" % (
                                    bid, j, np.asarray(got).tolist()[:3], np.asarray(exp).tolist()[:3]), facts)
        # ... and row by row up to BLAS batch-size effects
        for j in range(len(Q)):
            est = m.mean_estimator_ if ids_q[j] == -1 else m.estimators_[ids_q[j]]
            exp = np.asarray(getattr(est, meth)(Q[j:j + 1]), dtype=np.float64)[0]
            gj = np.asarray(out[j], dtype=np.float64)
            require(bool(np.all(np.abs(gj - exp) <= 1e-9 * (1 + np.abs(exp)))), "dispatch-row:" + meth + (":fallback" if ids_q[j] == -1 else ":bucket"),
                    "row %d (bucket id %d): %r, its model answers %r" % (j, ids_q[j], gj.tolist(), exp.tolist()), facts)
        if meth == "predict_proba":
            require(out.ndim == 2 and out.shape[1] == len(m.classes_), "proba:shape", "%r for %d classes" % (out.shape, len(m.classes_)), facts)
            require(bool(np.all(out >= 0)) and bool(np.all(np.abs(out.sum(axis=1) - 1) <= 1e-9)), "proba:not-a-distribution", "", facts)
        if meth == "predict" and classifier:
            require(set(out.tolist()) <= set(np.asarray(m.classes_).tolist()), "predict:label-not-in-classes", "%r vs %r" % (sorted(set(out.tolist())), m.classes_), facts)
            require(sorted(np.asarray(m.classes_).tolist()) == sorted(set(y.tolist())), "classes_", "%r" % (m.classes_,), facts)

    # ---- a second estimator built with the SAME binner object (one configured binner handed to two models) and fitted on other data:
    # the first model keeps routing with the partition it learnt
    if case.get("shared_binner"):
        before_ids = np.asarray(m.transform_bins(Qin)).copy()
        before_out = np.asarray(m.predict(Qin)).copy()
        cls2 = _mod.PiecewiseClassifier if classifier else _mod.PiecewiseRegressor
        kw2 = dict(binner=m.binner, estimator=_estimator(case["estimator"], classifier), n_jobs=None)
        if classifier:
            kw2["random_state"] = case["random_state"]
        other = cls2(**kw2)
        X2 = X[::-1] * 0.5 + 0.25
        with contextlib.redirect_stdout(io.StringIO()), contextlib.redirect_stderr(io.StringIO()):
            try:
                other.fit(X2, y)
            except Exception:  # noqa: BLE001 - whether the second model can be fitted on that table is not the point
                other = None
        require(np.array_equal(np.asarray(m.transform_bins(Qin)), before_ids), "shared-binner:routing-changed",
                "after ANOTHER estimator built with the same binner object was fitted on other data, transform_bins of the first one changed", facts)
        after_out = np.asarray(m.predict(Qin))
        require(after_out.shape == before_out.shape and np.array_equal(after_out, before_out), "shared-binner:predictions-changed",
                "after another estimator built with the same binner object was fitted, the first one predicts differently", facts)
    # ---- two callers at once: one fitted model serves two batches from two threads (a web service does this); each caller gets the
    # answers of its own batch
    if case.get("two_callers") and len(Q) >= 2:
        import threading
        meth = "predict"
        QA, QB = Q, Q[::-1].copy()
        expA, expB = np.asarray(getattr(m, meth)(QA)), np.asarray(getattr(m, meth)(QB))
        wrong, errors = [], []
        barrier = threading.Barrier(2)

        def caller(batch, expected, tag):
            try:
                barrier.wait(timeout=10)
                for _ in range(12):
                    got = np.asarray(getattr(m, meth)(batch))
                    if got.shape != expected.shape or not np.array_equal(got, expected):
                        wrong.append(tag)
                        return
            except Exception as e:  # noqa: BLE001 - reported below, from the main thread
                errors.append("%s: %s" % (type(e).__name__, str(e)[:120]))
        ta = threading.Thread(target=caller, args=(QA, expA, "A"))
        tb = threading.Thread(target=caller, args=(QB, expB, "B"))
        ta.start(); tb.start(); ta.join(); tb.join()
        require(not errors, "two-callers:raises", "predict raised when two threads called the same fitted model: %s" % errors[:1], facts)
        require(not wrong, "two-callers:wrong-answers", "caller %s got the answers of another batch while two threads called predict on the same fitted model" % wrong[:1], facts)
    # ---- n_jobs differential
    if case["n_jobs"] not in (None, 1):
        np.random.seed(case["seed"])
        m1 = _new_model(case, None)
        with contextlib.redirect_stdout(io.StringIO()), contextlib.redirect_stderr(io.StringIO()):
            m1.fit(Xin, yin, sample_weight=win)
        for meth in _methods(case, m):
            a, b = np.asarray(getattr(m, meth)(Qin)), np.asarray(getattr(m1, meth)(Qin))
            require(a.shape == b.shape and np.array_equal(a, b), "n_jobs:" + meth,
                    "n_jobs=%r and n_jobs=None disagree%s" % (case["n_jobs"], " (a bucket misses a class)" if missing_class else ""),
                    dict(facts, missing_class=missing_class))
    labels = ["clf" if classifier else "reg", "binner=" + case["binner"]["kind"], "est=" + case["estimator"]["kind"],
              "buckets=1" if nb == 1 else ("buckets<=4" if nb <= 4 else "buckets>4"), "unseen-bucket" if unseen else "all-seen",
              "weights" if w is not None else "no-weights", "n_jobs=%s" % case["n_jobs"], "missing-class" if missing_class else "no-missing-class",
              "train:" + facts["xkind"], "query:" + facts["qkind"], "y:" + facts["ykind"], "two-callers" if case.get("two_callers") else "one-caller", "verbose" if case.get("verbose") else "silent", "zero-weights" if (w is not None and (w == 0).any()) else "no-zero-weight", "rows>=512:class-counts-multiple-of-256" if case.get("big") else "rows<=50"]
    return Outcome(labels, nb >= 2 and (unseen or missing_class or w is not None or case["n_jobs"] not in (None, 1)))


_cell = st.integers(-32, 32).map(lambda v: v / 4.0)


@st.composite
def _cases(draw, tier="quick"):
    classifier = draw(st.booleans())
    n = draw(st.integers(4, 30 if tier == "quick" else 50))
    d = draw(st.integers(1, 3))
    X = [[draw(_cell) for _ in range(d)] for _ in range(n)]
    bk = draw(st.sampled_from(["tree", "tree", "bins", "kbins", "kbins"]))
    if bk == "tree":
        binner = dict(kind="tree", max_depth=draw(st.integers(1, 4)), min_samples_leaf=draw(st.integers(1, 4)))
    elif bk == "bins":
        binner = dict(kind="bins")
    else:
        binner = dict(kind="kbins", n_bins=draw(st.integers(2, 4)), strategy=draw(st.sampled_from(["uniform", "quantile", "kmeans"])))
    if classifier:
        ek = draw(st.sampled_from(["recording", "recording", "logreg", "tree", "biased"]))
        lab = draw(st.lists(st.integers(-5, 12), min_size=2, max_size=4, unique=True))
        labels = [draw(st.sampled_from(lab)) for _ in range(50)]
        labels[0], labels[1] = lab[0], lab[1]
    else:
        ek = draw(st.sampled_from(["recording", "recording", "linear", "dummy"]))
        labels = None
    est = dict(kind=ek, tag=draw(st.integers(0, 3)), yield_fit=draw(st.sampled_from([0, 0, 1, 2])), yield_predict=draw(st.sampled_from([0, 0, 1, 2])))
    mq = draw(st.integers(1, 12))
    Q = [[draw(st.one_of(_cell, st.integers(-60, 60).map(lambda v: v / 2.0))) for _ in range(d)] for _ in range(mq)]
    return dict(classifier=classifier, X=X, labels=labels, beta=[draw(st.integers(-8, 8)) / 4.0 for _ in range(3)],
                ynoise=[draw(st.integers(-16, 16)) / 8.0 for _ in range(50)],
                w=draw(st.one_of(st.none(), st.lists(st.integers(1, 16).map(lambda v: v / 4.0), min_size=50, max_size=50))),
                binner=binner, estimator=est, n_jobs=draw(st.sampled_from([None, 1, 2, 2, 4])), random_state=draw(st.one_of(st.none(), st.integers(0, 99))),
                seed=draw(st.integers(0, 2**31 - 2)), Q=Q, xkind=draw(st.sampled_from(["array", "array", "frame"])),
                qkind=draw(st.sampled_from(["float64", "float64", "float32", "int64", "frame"])),
                two_callers=draw(st.integers(0, 3)) == 0, shared_binner=draw(st.integers(0, 3)) == 0, verbose=draw(st.integers(0, 3)) == 0,
                ykind=draw(st.sampled_from(["array", "array", "series"])), zero_w=draw(st.lists(st.integers(0, 49), max_size=4)) if draw(st.integers(0, 3)) == 0 else [], index_perm=draw(st.lists(st.integers(0, 10**6), min_size=50, max_size=50)))


CLAUSES = [
    Clause("piecewise", check, strategy=lambda tier: st.builds(lambda c, b, wc: dict(c, big=(b == 0), wconst=wc), with_sk(_cases(tier)), st.integers(0, 24), st.sampled_from([None, None, None, 4.0, 0.5])), quick=1600, thorough=25000, quick_shards=16,
           doc="partition, local training sets, dispatch, n_jobs independence, probabilities"),
]
