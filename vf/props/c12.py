"""C12 - tree utilities are faithful to the tree's decision function."""
from vf import loader
from vf.core import Clause, Outcome, Violation, require, with_sk, round_trip, COPIES

import numpy as np
from hypothesis import strategies as st
from sklearn.tree import DecisionTreeClassifier, DecisionTreeRegressor

PROPERTY = "C12"
RULE = ("digitize: strictly monotonic bins (length 1..40 quick / 1..80 thorough, both directions; dyadic-grid edges so that "
        "queries can hit an edge exactly, or arbitrary doubles) x query points = every edge, every midpoint, the float32 "
        "neighbours of every edge, far outliers and random draws, all float32-representable; oracle numpy.digitize(right=True). "
        "digitize-lengths: every length 1..64 (1..200 thorough) plus the lengths around powers of two up to 1025 (4097 thorough) x both directions on integer edges (exhaustive over lengths). "
        "trees: DecisionTreeRegressor/Classifier fitted on generated float32-grid data (depth 1..6, single-node trees included; one case in six has NaN cells in the training table), "
        "queries on the grid plus float32 neighbours of every threshold; oracles: apply(), children arrays, and box<->routing "
        "equivalence in both directions; then the same estimator object is refitted (mirrored data, reversed targets or a prefix) and everything is checked again on the tree it holds now. Non-trivial: >=3 bins and an edge hit (digitize); >=3 leaves (trees).")
ASSUMPTIONS = [
    "query points are float32-representable: scikit-learn trees cast X to float32 before comparing with float64 thresholds, "
    "so a double such as 0.1 is legitimately routed differently from numpy.digitize on the double (input contract of every "
    "scikit-learn tree, not part of the statement)",
    "right=False is a documented refusal (RuntimeError) and is only checked to be refused",
]
TOLERANCES = {"all": "exact"}

_dig = loader.module("mltree.tree_digitize")
_str = loader.module("mltree.tree_structure")


def _f32(a):
    return np.asarray(a, dtype=np.float32)


def check_digitize(case):
    bins = np.array(case["bins"], dtype=np.float64)
    bd = case.get("bins_dtype", "float64")
    if bd != "float64":
        # integer edges given in an integer array (unsigned or narrow types included): the same edges
        info = np.iinfo(bd)
        ints = np.round(bins)
        if bool(np.all(ints == bins)) and ints.min() >= info.min and ints.max() <= info.max and len(set(ints.tolist())) == len(ints):
            bins = ints.astype(bd)
        else:
            bd = "float64"
    n = len(bins)
    desc = n >= 2 and bins[0] > bins[1]
    facts = dict(n=n, descending=bool(desc), bins_dtype=bd)
    bins_in = bins
    bins = bins.astype(np.float64)
    xs = []
    with np.errstate(all="ignore"):
        b32 = _f32(bins)
        xs.extend(b32.tolist())
        xs.extend(np.nextafter(b32, np.float32(np.inf)).tolist())
        xs.extend(np.nextafter(b32, np.float32(-np.inf)).tolist())
        if n >= 2:
            xs.extend(_f32((bins[:-1] + bins[1:]) / 2).tolist())
        lo, hi = float(bins.min()), float(bins.max())
        xs.extend(_f32([lo - 1, hi + 1, lo - 1e6, hi + 1e6, 0.0]).tolist())
    xs.extend(case["x"])
    x32 = _f32(xs)
    x32 = x32[np.isfinite(x32)]
    if case.get("nan_query"):
        # numpy.digitize is defined for NaN (it sorts last): "every x" includes it
        x32 = np.concatenate([x32, _f32([np.nan])])
    x64 = x32.astype(np.float64)
    expected = np.digitize(x64, bins, right=True)
    tree = _dig.digitize2tree(bins_in, right=True)
    if case.get("via_copy"):
        # the returned estimator after persistence / a deep copy (scikit-learn trees survive both exactly) is still the tree of THESE bins
        tree = round_trip(tree, case["via_copy"])
    facts["via_copy"] = case.get("via_copy") or "none"
    got = tree.predict(x32.reshape(-1, 1))
    require(got.shape == expected.shape, "digitize:shape", "%r" % (got.shape,), facts)
    bad = np.nonzero(got != expected)[0]
    if len(bad):
        i = int(bad[0])
        edge = bool(np.any(bins == x64[i]))
        facts["on_edge"] = edge
        raise Violation("digitize:differs" + (":descending" if desc else ":ascending") + (":on-edge" if edge else ":off-edge"),
                        "bins=%r x=%r tree=%r numpy.digitize=%r" % (bins.tolist(), float(x64[i]), float(got[i]), int(expected[i])),
                        facts)
    # documented refusal
    try:
        _dig.digitize2tree(bins_in, right=False)
        raise Violation("digitize:right-false-accepted", "right=False did not raise", facts)
    except RuntimeError:
        pass
    edge_hit = bool(np.isin(x64, bins).any())
    labels = ["descending" if desc else "ascending", "n=1" if n == 1 else ("n=2" if n == 2 else ("n<=8" if n <= 8 else "n>8")),
              "edge-hit" if edge_hit else "no-edge-hit", case.get("kind", "grid"), "bins:" + bd, "nan-query" if case.get("nan_query") else "finite-queries", "via-copy:" + str(case.get("via_copy") or "none")]
    return Outcome(labels, n >= 3 and edge_hit)


@st.composite
def _digitize_cases(draw, tier="quick"):
    nmax = 40 if tier == "quick" else 80
    n = draw(st.integers(1, nmax))
    kind = draw(st.sampled_from(["grid", "grid", "doubles", "tight"]))
    if kind == "grid":
        vals = draw(st.lists(st.integers(-2000, 2000), min_size=n, max_size=n, unique=True))
        scale = draw(st.sampled_from([0.125, 1.0, 0.5, 8.0]))
        bins = sorted(v * scale for v in vals)
    elif kind == "tight":
        # consecutive float32 numbers: neighbours of an edge are edges themselves
        start = np.float32(draw(st.integers(-100, 100)) / 4.0)
        bins = [float(start)]
        for _ in range(n - 1):
            bins.append(float(np.nextafter(np.float32(bins[-1]), np.float32(np.inf))))
    else:
        vals = draw(st.lists(st.floats(min_value=-1e6, max_value=1e6, allow_nan=False, allow_infinity=False, width=64),
                             min_size=n, max_size=n, unique=True))
        bins = sorted(vals)
    if draw(st.booleans()):
        bins = bins[::-1]
    x = draw(st.lists(st.floats(min_value=-3e6, max_value=3e6, allow_nan=False, width=32), max_size=8))
    bd = "float64"
    if kind == "grid" and draw(st.integers(0, 2)) == 0:
        # small integer edges in an integer array
        bd = draw(st.sampled_from(["int64", "uint8", "int8", "uint16", "int16", "uint64"]))
        lo, hi = (0, 250) if bd == "uint8" else ((-120, 120) if bd == "int8" else ((0, 2000) if bd.startswith("u") else (-2000, 2000)))
        vals = draw(st.lists(st.integers(lo, hi), min_size=min(n, 40), max_size=min(n, 40), unique=True))
        bins = sorted(float(v) for v in vals)
        if draw(st.booleans()):
            bins = bins[::-1]
    return dict(bins=bins, x=x, kind=kind, bins_dtype=bd, nan_query=draw(st.booleans()))


def _length_cases(tier):
    nmax = 64 if tier == "quick" else 200
    # every length up to nmax, then lengths around the powers of two up to 1024 (4096 thorough)
    more = [127, 128, 129, 255, 256, 257, 511, 512, 513, 1023, 1024, 1025] + ([2047, 2048, 2049, 4095, 4096, 4097] if tier != "quick" else [])
    for n in list(range(1, nmax + 1)) + [m for m in more if m > nmax]:
        for desc in (False, True):
            bins = [float(3 * i) for i in range(n)]
            if desc:
                bins = bins[::-1]
            yield dict(bins=bins, x=[], kind="lengths")


# ----------------------------------------------------------------------------- fitted trees
def _fit_tree(case):
    X = _f32(case["X"]).reshape(len(case["X"]), -1)
    for i, j in case.get("nan_cells", []):
        # scikit-learn trees accept missing values in the training table (best splitter): a split may then separate "missing" from the
        # rest with an infinite threshold
        X[i % X.shape[0], j % X.shape[1]] = np.nan
    y = np.array(case["y"])
    cls = DecisionTreeClassifier if case["kind"] == "clf" else DecisionTreeRegressor
    kw = dict(max_depth=case["max_depth"], min_samples_leaf=case["min_samples_leaf"], random_state=case["rs"])
    if case.get("splitter"):
        kw["splitter"] = "best" if case.get("nan_cells") else case["splitter"]
    if case.get("max_leaf_nodes"):
        kw["max_leaf_nodes"] = case["max_leaf_nodes"]          # scikit-learn then grows the tree best-first: node ids are not in prefix order
    m = cls(**kw)
    m.fit(X, y)
    return m, X


def _queries(model, X, extra):
    t = model.tree_
    d = X.shape[1]
    qs = [X]
    if len(extra):
        qs.append(_f32(extra).reshape(-1, d))
    inner = np.nonzero(t.children_left != -1)[0]
    if len(inner):
        base = X[: max(1, min(len(X), 6))]
        for node in inner:
            f = int(t.feature[node])
            th32 = np.float32(t.threshold[node])
            if not np.isfinite(th32):
                continue                 # a split on "missing": no finite point sits next to it
            for v in (th32, np.nextafter(th32, np.float32(np.inf)), np.nextafter(th32, np.float32(-np.inf))):
                q = base.copy()
                q[:, f] = v
                qs.append(q)
    return np.vstack(qs).astype(np.float32)


def _check_model(model, X, extra, facts, stage=""):
    t = model.tree_
    Q = _queries(model, X, extra)
    ref_leaves = [i for i in range(t.node_count) if t.children_left[i] == -1 and t.children_right[i] == -1]
    facts = dict(facts, n_leaves=len(ref_leaves))
    app = model.apply(Q)

    got = _str.predict_leaves(model, Q)
    require(np.array_equal(np.asarray(got), app), "predict_leaves:differs" + stage,
            "predict_leaves=%r apply=%r" % (np.asarray(got).tolist()[:10], app.tolist()[:10]), facts)
    for i in range(0, len(Q), max(1, len(Q) // 6)):
        one = _str.predict_leaves(model, Q[i:i + 1])
        require(np.asarray(one).shape == (1,) and int(np.asarray(one)[0]) == int(app[i]), "predict_leaves:single-row" + stage,
                "row %d alone -> %r, apply -> %d" % (i, np.asarray(one).tolist(), int(app[i])), facts)
    # one-row float64 queries a hair above a threshold (scikit-learn's float32 cast puts them ON it, so they go left), and a NaN cell:
    # whatever model.apply answers for the row alone
    inner = np.nonzero(t.children_left != -1)[0]
    for node in inner[:4]:
        f = int(t.feature[node])
        th = float(np.float32(t.threshold[node]))
        if not np.isfinite(th):
            continue
        for v in (th + 1e-12 * (1.0 + abs(th)), th - 1e-12 * (1.0 + abs(th)), float("nan")):
            q = np.array(X[:1], dtype=np.float64)
            q[0, f] = v
            try:
                want = model.apply(q)
            except Exception:  # noqa: BLE001 - scikit-learn refuses the row (NaN for this tree): nothing to compare
                continue
            one = np.asarray(_str.predict_leaves(model, q))
            require(one.shape == (1,) and int(one[0]) == int(want[0]), "predict_leaves:single-row:float64-near-threshold" + stage,
                    "row %r alone -> %r, apply -> %d (threshold %r on feature %d)" % (q[0].tolist(), one.tolist(), int(want[0]), th, f), facts)
    li = _str.tree_leave_index(model)
    require(sorted(int(i) for i in li) == ref_leaves and len(li) == len(ref_leaves), "leave_index:differs" + stage,
            "tree_leave_index=%r, nodes without children=%r" % (list(li), ref_leaves), facts)
    require(set(app.tolist()) <= set(ref_leaves), "leave_index:apply-not-leaf", "", facts)
    Q64 = Q.astype(np.float64)
    finite = ~np.isnan(Q64).any(axis=1)
    # the parents of the nodes may be computed once and handed to every call (the documented use of the third argument); the boxes
    # returned earlier keep their values while later leaves are asked
    shared = _str.tree_node_parents(model) if facts.get("share_parents") else None
    returned = []
    for leaf in ref_leaves:
        R = _str.tree_node_range(model, leaf, shared) if shared is not None else _str.tree_node_range(model, leaf)
        returned.append((leaf, R, np.array(R, dtype=np.float64, copy=True)))
        R = np.asarray(R, dtype=np.float64)
        require(R.ndim == 2 and R.shape[1] == 2 and R.shape[0] <= X.shape[1], "node_range:shape", "%r" % (R.shape,), facts)
        inbox = np.ones(len(Q), dtype=bool)
        for f in range(R.shape[0]):
            if not np.isnan(R[f, 0]):
                inbox &= Q64[:, f] > R[f, 0]
            if not np.isnan(R[f, 1]):
                inbox &= Q64[:, f] <= R[f, 1]
        routed = app == leaf
        bad = np.nonzero((inbox != routed) & finite)[0]
        if len(bad):
            i = int(bad[0])
            raise Violation("node_range:" + ("box-not-in-leaf" if inbox[i] else "leaf-not-in-box") + stage,
                            "leaf %d range %r, point %r routed to %d" % (leaf, R.tolist(), Q64[i].tolist(), int(app[i])), facts)
    for leaf, R, R0 in returned:
        require(np.array_equal(np.asarray(R, dtype=np.float64), R0, equal_nan=True), "node_range:earlier-box-changed" + stage,
                "the box returned for leaf %d changed while the boxes of other leaves were computed" % leaf, facts)
    return ref_leaves


def check_tree(case):
    model, X = _fit_tree(case)
    facts = dict(kind=case["kind"], d=int(X.shape[1]), share_parents=bool(case.get("share_parents")))
    ref_leaves = _check_model(model, X, case["q"], facts)
    t = model.tree_
    nl = len(ref_leaves)
    labels = [case["kind"], "best-first" if case.get("max_leaf_nodes") else "depth-first", "leaves=1" if nl == 1 else ("leaves=2" if nl == 2 else ("leaves<=6" if nl <= 6 else "leaves>6")),
              "d=%d" % X.shape[1]]
    shape_key = dict(kind=case["kind"], feat=t.feature.tolist(), left=t.children_left.tolist(), thr=t.threshold.tolist())
    # the SAME estimator object refitted (what a loop over data sets or a grid search does): on the mirrored data the tree has the same
    # number of leaves at other node ids, on a prefix of the data usually fewer; the utilities must describe the tree it holds now
    refit = case.get("refit", "mirror")
    y = np.array(case["y"])
    if refit == "mirror":
        X2, y2 = (-X).astype(np.float32), y
    elif refit == "reverse-target":
        X2, y2 = X, y[::-1].copy()
    else:
        k = max(1, len(X) // 2)
        X2, y2 = X[:k], y[:k]
    model.fit(X2, y2)
    leaves2 = _check_model(model, X2, case["q"], dict(facts, refit=refit), stage=":after-refit")
    labels.append("nan-in-training-table" if case.get("nan_cells") else "no-nan")
    if np.isinf(t.threshold).any():
        labels.append("split-on-missing")
    labels.append("refit:" + refit + (":same-leaf-count-other-ids" if len(leaves2) == nl and leaves2 != ref_leaves else ""))
    return Outcome(labels, nl >= 3, key=shape_key)


@st.composite
def _tree_cases(draw, tier="quick"):
    d = draw(st.integers(1, 3 if tier == "quick" else 5))
    n = draw(st.integers(1, 30 if tier == "quick" else 80))
    cell = st.integers(-40, 40).map(lambda k: k / 4.0)
    X = draw(st.lists(st.lists(cell, min_size=d, max_size=d), min_size=n, max_size=n))
    kind = draw(st.sampled_from(["reg", "clf"]))
    if kind == "clf":
        y = draw(st.lists(st.integers(0, 3), min_size=n, max_size=n))
    else:
        y = draw(st.lists(st.integers(-20, 20).map(lambda k: k / 2.0), min_size=n, max_size=n))
    q = draw(st.lists(st.lists(st.integers(-48, 48).map(lambda k: k / 4.0), min_size=d, max_size=d), max_size=10))
    return dict(X=X, y=y, kind=kind, max_depth=draw(st.integers(1, 6)), min_samples_leaf=draw(st.integers(1, 3)),
                rs=draw(st.integers(0, 5)), splitter=draw(st.sampled_from(["best", "random"])), q=q,
                nan_cells=draw(st.lists(st.tuples(st.integers(0, 79), st.integers(0, 4)).map(list), min_size=1, max_size=6)) if draw(st.integers(0, 5)) == 0 else [],
                share_parents=draw(st.booleans()),
                max_leaf_nodes=draw(st.sampled_from([None, None, 3, 5, 8, 12])), refit=draw(st.sampled_from(["mirror", "mirror", "reverse-target", "prefix"])))


CLAUSES = [
    Clause("digitize", check_digitize, strategy=lambda tier: st.builds(lambda c, h: dict(c, via_copy=h), with_sk(_digitize_cases(tier)), st.sampled_from(COPIES)), quick=2500, thorough=60000, quick_shards=8,
           doc="digitize2tree(bins, right=True).predict == numpy.digitize(right=True), all bins directions"),
    Clause("digitize-lengths", check_digitize, cases=_length_cases, quick_shards=4, exhaustive=True,
           doc="every bins length in the bounds, both directions, all edges/midpoints/neighbours"),
    Clause("trees", check_tree, strategy=lambda tier: with_sk(_tree_cases(tier)), quick=1500, thorough=30000, quick_shards=8,
           doc="predict_leaves == apply, tree_leave_index == nodes without children, tree_node_range box <=> routing"),
]
