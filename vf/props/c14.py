"""C14 - traceable vectorizers equal scikit-learn's, n-grams kept as token tuples."""
from vf import loader
from vf.core import Clause, Outcome, Violation, require, round_trip, COPIES

import numpy as np
from hypothesis import strategies as st
from sklearn.feature_extraction.text import CountVectorizer, TfidfVectorizer

PROPERTY = "C14"
RULE = ("Hypothesis draws a corpus (1-8 documents of 0-8 tokens over an alphabet holding English stop words, 1-character tokens, "
        "case variants, repeated tokens; empty documents and documents shorter than n occur; one case in eight also holds a document of 257..2049 tokens), a second corpus for transform(), and "
        "options ngram_range 1<=a<=b<=4, stop_words None|'english'|list, lowercase, binary, min_df/max_df (ints and floats), "
        "max_features, and for tf-idf use_idf/smooth_idf/sublinear_tf/norm; default tokenizer only. Oracle: differential against "
        "CountVectorizer/TfidfVectorizer built with the same arguments (same exception type, or equal matrices for fit_transform and "
        "transform, and vocabulary_ equal after joining tuples with a space); in a third of the cases both objects are then given a second configuration with set_params (all options, or only ngram_range) and the whole comparison is repeated on the refitted instances. Non-trivial: b>=2, or stop words set, or a df/"
        "max_features filter that actually removes a term. Distinct = distinct case JSON.")
ASSUMPTIONS = ["default tokenizer / analyzer='word' only, as the statement says",
               "get_feature_names_out is only compared when it returns (tuple keys make numpy build odd-shaped arrays)"]
TOLERANCES = {"count": "exact", "tfidf": "1e-12 absolute"}

_mod = loader.module("mlmodel.sklearn_text")


def _kwargs(o):
    kw = dict(ngram_range=tuple(o["ngram_range"]), stop_words=o["stop_words"], lowercase=o["lowercase"], binary=o["binary"],
              min_df=o["min_df"], max_df=o["max_df"], max_features=o["max_features"])
    if o["kind"] == "tfidf":
        kw.update(use_idf=o["use_idf"], smooth_idf=o["smooth_idf"], sublinear_tf=o["sublinear_tf"], norm=o["norm"])
    return kw


def _as(kind, docs):
    """the documents as scikit-learn documents them: 'an iterable which generates str' - a list, a tuple, or something that can be read
    only once (an iterator, a generator, lines of an open file); a fresh one for every call"""
    if kind == "tuple":
        return tuple(docs)
    if kind == "iterator":
        return iter(list(docs))
    if kind == "generator":
        return (d for d in list(docs))
    return list(docs)


def _fit_compare(ref, tra, o, corpus, other, facts, tol, stage="", container="list", copy_how=None):
    """fits both on the corpus and compares everything; returns None when both refuse, else (names_label, removed)"""
    ref_exc = tra_exc = None
    try:
        mref = ref.fit_transform(_as(container, corpus))
    except ValueError as e:
        ref_exc = e
    try:
        mtra = tra.fit_transform(_as(container, corpus))
    except ValueError as e:
        tra_exc = e
    if ref_exc is not None or tra_exc is not None:
        require(ref_exc is not None and tra_exc is not None and type(ref_exc) is type(tra_exc), "refusal-differs" + stage,
                "scikit-learn: %r, traceable: %r" % (ref_exc, tra_exc), facts)
        return None

    def same(a, b, what):
        require(a.shape == b.shape, "matrix:shape:" + what + stage, "%r vs %r" % (a.shape, b.shape), facts)
        d = abs(a - b)
        mx = d.max() if d.nnz else 0.0
        require(mx <= tol, "matrix:values:" + what + stage, "max abs difference %r\nsklearn=%r\ntraceable=%r" % (
            mx, a.toarray().tolist(), b.toarray().tolist()), facts)

    if copy_how:
        # the fitted vectorizer is persisted / deep-copied and BOTH go on being used: the copy transforms like scikit-learn's, and the
        # original (checked by everything below) is what it was
        tcopy = round_trip(tra, copy_how)
        same(ref.transform(_as(container, other)), tcopy.transform(_as(container, other)), "transform:" + copy_how + "-copy")
    # vocabulary: tuples of tokens, joined = scikit-learn's key, same column
    voc = tra.vocabulary_
    a, b = o["ngram_range"]
    joined = {}
    for k, v in voc.items():
        require(isinstance(k, tuple) and all(isinstance(t, str) for t in k), "vocabulary:key-not-token-tuple" + stage, "key %r" % (k,), facts)
        require(a <= len(k) <= b, "vocabulary:key-length" + stage, "key %r for ngram_range %r" % (k, (a, b)), facts)
        joined[" ".join(k)] = int(v)
    require(len(joined) == len(voc), "vocabulary:collision" + stage, "", facts)
    require(joined == {k: int(v) for k, v in ref.vocabulary_.items()}, "vocabulary:differs" + stage,
            "traceable (joined) %r\nscikit-learn %r" % (sorted(joined.items()), sorted(ref.vocabulary_.items())), facts)
    same(mref, mtra, "fit_transform")
    same(ref.transform(_as(container, other)), tra.transform(_as(container, other)), "transform")
    same(ref.transform(_as(container, corpus)), tra.transform(_as(container, corpus)), "transform-train")
    names_label = "names-ok"
    try:
        names = tra.get_feature_names_out()
    except Exception:  # noqa: BLE001 - numpy cannot always build the array out of tuples
        names = None
        names_label = "names-unavailable"
    if names is not None:
        got = []
        for nm in list(names):
            if isinstance(nm, str):
                got.append((nm,))
            else:
                got.append(tuple(np.asarray(nm, dtype=object).ravel().tolist()))
        expected = [k for k, _ in sorted(voc.items(), key=lambda kv: kv[1])]
        require(got == expected, "feature-names:order" + stage, "%r vs vocabulary order %r" % (got[:6], expected[:6]), facts)
    # did a filter remove something?
    full = CountVectorizer(ngram_range=(a, b), lowercase=o["lowercase"])
    try:
        nfull = len(full.fit(corpus).vocabulary_)
    except ValueError:
        nfull = 0
    return names_label, nfull > len(voc)


def check(case):
    o = case["options"]
    kw = _kwargs(o)
    kw_ref, kw_tra = dict(kw), dict(kw)
    fv = case.get("fixed_vocabulary")
    if fv:
        # a vocabulary fixed by the caller, as a mapping n-gram -> column whose insertion order is not its column order (another fitted
        # vectorizer's vocabulary_ looks like that): scikit-learn gets the space-joined n-grams, the traceable class the token tuples
        terms = [t for t in fv if o["ngram_range"][0] <= len(t) <= o["ngram_range"][1]]
        terms = [[w.lower() for w in t] for t in terms] if o["lowercase"] else terms
        seen, uniq = set(), []
        for t in terms:
            if tuple(t) not in seen:
                seen.add(tuple(t))
                uniq.append(tuple(t))
        if uniq:
            order = case.get("vocabulary_order", [])
            cols_ = list(range(len(uniq)))
            perm_ = sorted(cols_, key=lambda i: (order[i % len(order)] if order else 0, i))
            kw_ref["vocabulary"] = {" ".join(uniq[i]): perm_.index(i) for i in cols_}
            kw_tra["vocabulary"] = {uniq[i]: perm_.index(i) for i in cols_}
            for kx in ("min_df", "max_df", "max_features"):
                kw_ref.pop(kx), kw_tra.pop(kx)
            kw_ref.update(min_df=1, max_df=1.0, max_features=None)
            kw_tra.update(min_df=1, max_df=1.0, max_features=None)
            if o["kind"] == "tfidf":
                # a fixed term may occur in no document: without smoothing scikit-learn's own idf divides by zero (inf / nan on both sides)
                kw_ref["smooth_idf"] = kw_tra["smooth_idf"] = True
        else:
            fv = None
    if o["kind"] == "tfidf":
        ref, tra = TfidfVectorizer(**kw_ref), _mod.TraceableTfidfVectorizer(**kw_tra)
        tol = 1e-12
    else:
        ref, tra = CountVectorizer(**kw_ref), _mod.TraceableCountVectorizer(**kw_tra)
        tol = 0.0
    corpus, other = list(case["corpus"]), list(case["other"])
    for lg in case.get("long", []):
        # a long document (hundreds to thousands of tokens: a size at which an implementation may start working in windows), given as a
        # short drawn pattern repeated to the drawn length
        toks = [lg["pattern"][i % len(lg["pattern"])] for i in range(lg["length"])]
        (corpus if lg["where"] == "corpus" else other).append(" ".join(toks))

    def facts_of(o):
        return dict(kind=o["kind"], stop_words=("list" if isinstance(o["stop_words"], list) else o["stop_words"]),
                    ngram_max=o["ngram_range"][1], ngram_min=o["ngram_range"][0])
    facts = facts_of(o)
    cont = case.get("container", "list")
    facts["container"] = cont
    first = _fit_compare(ref, tra, o, corpus, other, facts, tol, container=cont, copy_how=case.get("via_copy"))
    a, b = o["ngram_range"]
    labels = [o["kind"]]
    if first is None:
        labels.append("both-refuse")
    else:
        names_label, removed = first
        labels += ["ngram_max=%d" % b, "ngram_min=%d" % a, "stop=" + str(facts["stop_words"]), names_label,
                   "filter-removed" if removed else "nothing-removed", "binary" if o["binary"] else "counts",
                   "has-empty-doc" if any(not d.strip() for d in corpus) else "no-empty-doc"]
    # the SAME two objects reconfigured with set_params and fitted again (a grid search over ngram_range does this): "every
    # configuration" includes the one an instance was given after it had already analysed the corpus with another one
    o2 = case.get("options2")
    if o2 is not None:
        o2 = dict(o2, kind=o["kind"])
        kw2 = _kwargs(o2)
        ref.set_params(**kw2)
        tra.set_params(**kw2)
        second = _fit_compare(ref, tra, o2, corpus, other, dict(facts_of(o2), reconfigured=True), tol, stage=":after-set_params", container=cont)
        labels.append("reconfigured" + (":both-refuse" if second is None else (":ngram-range-changed" if o2["ngram_range"] != o["ngram_range"] else "")))
    if case.get("long"):
        labels.append("long-document")
    labels.append("corpus:" + cont)
    labels.append("fixed-vocabulary" if fv else "learned-vocabulary")
    labels.append("copied-after-fit:" + str(case.get("via_copy") or "none"))
    if first is None:
        return Outcome(labels, False)
    return Outcome(labels, b >= 2 or o["stop_words"] is not None or removed)


WORDS = ["the", "is", "and", "of", "cat", "dog", "Cat", "DOG", "a", "I", "x", "bird", "fish", "The", "first", "document", "it", "be",
         # tokens scikit-learn keeps apart from their look-alikes: a ligature, full-width digits, a superscript, a composed and a decomposed accent
         "\ufb01rst", "\uff11\uff12", "12", "km\u00b2", "km2", "caf\u00e9", "cafe\u0301"]


@st.composite
def _cases(draw, tier="quick"):
    def doc():
        toks = draw(st.lists(st.sampled_from(WORDS), min_size=draw(st.sampled_from([0, 1, 3, 4])), max_size=8 if tier == "quick" else 14))
        sep = draw(st.sampled_from([" ", " ", ". ", ", "]))
        return sep.join(toks)
    ndoc = draw(st.integers(1, 8))
    corpus = [doc() for _ in range(ndoc)]
    other = [doc() for _ in range(draw(st.integers(1, 4)))]
    def options():
        a = draw(st.integers(1, 4))
        b = draw(st.integers(a, 4))
        stop = draw(st.sampled_from([None, None, "english", "list"]))
        if stop == "list":
            # entries holding a blank are legal and match no token (scikit-learn compares stop words with single tokens)
            stop = draw(st.lists(st.sampled_from(["the", "cat", "dog", "is", "bird", "document", "the cat", "is a", "cat dog", "of the"]), min_size=1, max_size=3, unique=True))
        mind = draw(st.sampled_from([1, 1, 1, 1, 1, 1, 2, 0.3]))
        maxd = draw(st.sampled_from([1.0, 1.0, 1.0, 1.0, 1.0, 0.8, 3, 6]))
        return dict(kind=draw(st.sampled_from(["count", "tfidf"])), ngram_range=[a, b], stop_words=stop, lowercase=draw(st.booleans()),
                    binary=draw(st.booleans()), min_df=mind, max_df=maxd, max_features=draw(st.sampled_from([None, None, 1, 3, 6])),
                    use_idf=draw(st.booleans()), smooth_idf=draw(st.booleans()), sublinear_tf=draw(st.booleans()),
                    norm=draw(st.sampled_from(["l2", "l1", None])))
    o = options()
    o2 = None
    if draw(st.integers(0, 2)) == 0:
        o2 = options()
        if draw(st.booleans()):
            # only the n-gram range changes
            o2 = dict(o, ngram_range=o2["ngram_range"])
    long = []
    if draw(st.integers(0, 7)) == 0:
        for _ in range(draw(st.integers(1, 2))):
            long.append(dict(pattern=draw(st.lists(st.sampled_from(WORDS), min_size=3, max_size=11)),
                             length=draw(st.sampled_from([257, 511, 512, 513, 600, 1023, 1025, 1500, 2049])), where=draw(st.sampled_from(["corpus", "other"]))))
    fixed = None
    if o2 is None and draw(st.integers(0, 5)) == 0:
        fixed = draw(st.lists(st.lists(st.sampled_from(WORDS), min_size=1, max_size=3), min_size=1, max_size=8))
    return dict(corpus=corpus, other=other, options=o, options2=o2, long=long, fixed_vocabulary=fixed,
                vocabulary_order=draw(st.lists(st.integers(0, 100), min_size=8, max_size=8)), container=draw(st.sampled_from(["list", "list", "tuple", "iterator", "generator"])))


CLAUSES = [
    Clause("differential", check, strategy=lambda tier: st.builds(lambda c, h: dict(c, via_copy=h), _cases(tier), st.sampled_from(COPIES)), quick=2400, thorough=40000, quick_shards=12,
           doc="Traceable{Count,Tfidf}Vectorizer vs {Count,Tfidf}Vectorizer with the same arguments"),
]
