"""Harness-side estimators (plain BaseEstimator subclasses: they clone and pickle like any
user estimator).  They live in an importable module so that pickle finds them."""
import threading
import time

import numpy as np
from sklearn.base import BaseEstimator, ClassifierMixin, RegressorMixin, TransformerMixin

_lock = threading.Lock()
_ordinal = [0]


def _next_ordinal():
    with _lock:
        _ordinal[0] += 1
        return _ordinal[0]


def reset_ordinal():
    with _lock:
        _ordinal[0] = 0


def _maybe_yield(k, salt=0):
    """perturbs joblib thread schedules; never used as an oracle.  With k >= 2 the pause depends on how many harness fits happened before
    in this process (`salt`), so that two fits of the same model under the same seed do not meet the same interleaving: code whose result
    depends on the order in which its worker threads run shows up as two different models"""
    if k == 1:
        time.sleep(0)
    elif k >= 2:
        time.sleep(0.0004 * (k - 1) * (1 + (salt * 7) % 4))


class RecordingRegressor(BaseEstimator, RegressorMixin):
    """fit stores copies of what it was given; predict is a deterministic function of
    the stored training set and of the row, so an output identifies the model."""

    def __init__(self, tag=0, yield_fit=0, yield_predict=0, random_state=None, keep_reference=False, reseed_global=False):
        self.tag = tag
        self.reseed_global = reseed_global        # True: fit seeds NumPy's global generator (legacy code does, "to be reproducible")
        self.yield_fit = yield_fit
        self.yield_predict = yield_predict
        self.random_state = random_state          # never used: a seeded base estimator is an ordinary thing to hand to a meta-estimator
        self.keep_reference = keep_reference      # True: keeps the very array it was given (as KernelRidge keeps X_fit_), no copy

    def fit(self, X, y, sample_weight=None):
        self.ordinal_ = _next_ordinal()
        _maybe_yield(self.yield_fit, self.ordinal_)
        if self.reseed_global:
            np.random.seed(self.random_state or 0)
        X = np.asarray(X)
        if self.keep_reference and X.ndim == 2 and X.dtype == np.float64:
            self.seen_X_ = X
        else:
            self.seen_X_ = np.array(X, dtype=np.float64, copy=True).reshape(X.shape[0], X.shape[1] if X.ndim > 1 else 1)
        self.seen_y_ = np.array(y, dtype=np.float64, copy=True)
        self.seen_w_ = None if sample_weight is None else np.array(sample_weight, dtype=np.float64, copy=True)
        w = np.ones(len(self.seen_y_)) if self.seen_w_ is None else self.seen_w_
        self.signature_ = float(np.sum(w * self.seen_y_.reshape(len(w), -1)[:, 0]) + 1024.0 * len(w)) if len(w) else -1.0
        self.n_features_in_ = self.seen_X_.shape[1]
        return self

    def predict(self, X):
        _maybe_yield(self.yield_predict)
        X = np.asarray(X, dtype=np.float64)
        return self.signature_ + 0.125 * X.reshape(X.shape[0], -1).sum(axis=1) + 0.5 * self.tag


class RecordingClassifier(BaseEstimator, ClassifierMixin):
    """probabilities: weighted class frequencies of the stored training set mixed with a
    row-dependent term, so that they depend on both the model and the row."""

    def __init__(self, tag=0, yield_fit=0, yield_predict=0, with_decision=True):
        self.tag = tag
        self.yield_fit = yield_fit
        self.yield_predict = yield_predict
        self.with_decision = with_decision

    def fit(self, X, y, sample_weight=None):
        self.ordinal_ = _next_ordinal()
        _maybe_yield(self.yield_fit, self.ordinal_)
        X = np.asarray(X)
        self.seen_X_ = np.array(X, dtype=np.float64, copy=True).reshape(X.shape[0], X.shape[1] if X.ndim > 1 else 1)
        self.seen_y_ = np.array(y, copy=True)
        self.seen_w_ = None if sample_weight is None else np.array(sample_weight, dtype=np.float64, copy=True)
        self.classes_ = np.unique(self.seen_y_)
        w = np.ones(len(self.seen_y_)) if self.seen_w_ is None else self.seen_w_
        self.freq_ = np.array([w[self.seen_y_ == c].sum() for c in self.classes_], dtype=np.float64)
        self.shift_ = float(np.sum(self.seen_X_)) % 7.0
        self.n_features_in_ = self.seen_X_.shape[1]
        return self

    def _scores(self, X):
        X = np.asarray(X, dtype=np.float64)
        X = X.reshape(X.shape[0], -1)
        k = len(self.classes_)
        r = np.abs(X.sum(axis=1) + self.shift_ + 0.25 * self.tag) % 3.0          # row term in [0, 3)
        base = 1.0 + self.freq_[None, :]
        rowpart = 1.0 + (r[:, None] + np.arange(k)[None, :]) % 3.0
        return base * rowpart

    def predict_proba(self, X):
        _maybe_yield(self.yield_predict)
        s = self._scores(X)
        return s / s.sum(axis=1, keepdims=True)

    def decision_function(self, X):
        if not self.with_decision:
            raise AttributeError("decision_function disabled")
        s = np.log(self._scores(X))
        if len(self.classes_) == 2:
            return s[:, 1] - s[:, 0]
        return s

    def predict(self, X):
        return self.classes_[np.argmax(self.predict_proba(X), axis=1)]


class MarkerError(Exception):
    """raised by FailingRegressor / FailingClassifier"""


_fail_counters = {}


def reset_fail_counter(key):
    with _lock:
        _fail_counters[key] = 0


def fail_count(key):
    with _lock:
        return _fail_counters.get(key, 0)


def _bump(key):
    with _lock:
        _fail_counters[key] = _fail_counters.get(key, 0) + 1
        return _fail_counters[key] - 1


class FailingRegressor(RecordingRegressor):
    """raises MarkerError on the fail_at-th fit counted over all clones sharing `key`"""

    def __init__(self, tag=0, yield_fit=0, yield_predict=0, key="k", fail_at=-1):
        super().__init__(tag=tag, yield_fit=yield_fit, yield_predict=yield_predict)
        self.key = key
        self.fail_at = fail_at

    def fit(self, X, y, sample_weight=None):
        i = _bump(self.key)
        if i == self.fail_at:
            raise MarkerError("injected failure at inner fit %d" % i)
        return super().fit(X, y, sample_weight)


class FailingClassifier(RecordingClassifier):
    def __init__(self, tag=0, yield_fit=0, yield_predict=0, with_decision=True, key="k", fail_at=-1):
        super().__init__(tag=tag, yield_fit=yield_fit, yield_predict=yield_predict, with_decision=with_decision)
        self.key = key
        self.fail_at = fail_at

    def fit(self, X, y, sample_weight=None):
        i = _bump(self.key)
        if i == self.fail_at:
            raise MarkerError("injected failure at inner fit %d" % i)
        return super().fit(X, y, sample_weight)


class FailingTransformer(BaseEstimator, TransformerMixin):
    def __init__(self, key="k", fail_at=-1, n_out=2):
        self.key = key
        self.fail_at = fail_at
        self.n_out = n_out

    def fit(self, X, y=None, sample_weight=None):
        i = _bump(self.key)
        if i == self.fail_at:
            raise MarkerError("injected failure at inner fit %d" % i)
        X = np.asarray(X, dtype=np.float64)
        self.mean_ = X.mean(axis=0)
        self.n_features_in_ = X.shape[1]
        return self

    def transform(self, X):
        X = np.asarray(X, dtype=np.float64)
        Z = X - self.mean_
        cols = [Z[:, i % Z.shape[1]] * (1 + i) for i in range(self.n_out)]
        return np.stack(cols, axis=1)

    def fit_transform(self, X, y=None, **kw):
        return self.fit(X, y).transform(X)


class CentroidClassifier(BaseEstimator, ClassifierMixin):
    """nearest class mean with soft-max scores; exactly equivariant under any relabelling
    (class statistics are computed per label and ordered by np.unique of the labels)."""

    def __init__(self, scale=1.0):
        self.scale = scale

    def fit(self, X, y, sample_weight=None):
        X = np.asarray(X, dtype=np.float64)
        y = np.asarray(y)
        self.classes_ = np.unique(y)
        w = np.ones(len(y)) if sample_weight is None else np.asarray(sample_weight, dtype=np.float64)
        # a class whose weights sum to zero keeps its plain mean (no NaN centroid: the harness compares outputs for equality)
        self.centroids_ = np.stack([(X[y == c] * w[y == c, None]).sum(axis=0) / w[y == c].sum() if w[y == c].sum() > 0 else X[y == c].mean(axis=0)
                                    for c in self.classes_])
        self.n_features_in_ = X.shape[1]
        return self

    def decision_function(self, X):
        X = np.asarray(X, dtype=np.float64)
        d = ((X[:, None, :] - self.centroids_[None, :, :]) ** 2).sum(axis=2)
        s = -self.scale * d
        if len(self.classes_) == 2:
            return s[:, 1] - s[:, 0]
        return s

    def predict_proba(self, X):
        X = np.asarray(X, dtype=np.float64)
        d = ((X[:, None, :] - self.centroids_[None, :, :]) ** 2).sum(axis=2)
        s = -self.scale * d
        s = s - s.max(axis=1, keepdims=True)
        e = np.exp(s)
        return e / e.sum(axis=1, keepdims=True)

    def predict(self, X):
        return self.classes_[np.argmax(self.predict_proba(X), axis=1)]


class FakeTSNE(BaseEstimator, TransformerMixin):
    """a cheap stand-in for sklearn.manifold.TSNE: only fit_transform, a `perplexity` hyper-parameter that must be
    smaller than the number of samples (as TSNE demands) and that influences the embedding"""

    def __init__(self, perplexity=30.0, n_components=1):
        self.perplexity = perplexity
        self.n_components = n_components

    def fit_transform(self, X, y=None):
        X = np.asarray(X, dtype=np.float64)
        if self.perplexity >= X.shape[0]:
            raise ValueError("perplexity must be less than n_samples")
        Z = X - X.mean(axis=0)
        cols = [Z[:, i % Z.shape[1]] * (1.0 + i) + Z[:, 0] * (self.perplexity / 8.0) for i in range(self.n_components)]
        self.embedding_ = np.stack(cols, axis=1)
        return self.embedding_

    def fit(self, X, y=None):
        self.fit_transform(X, y)
        return self


class KwargsRegressor(RecordingRegressor):
    """a duck-typed user estimator whose fit takes its weights through **kwargs (as GridSearchCV or a Pipeline do): nothing in the
    signature is called sample_weight"""

    def fit(self, X, y, **kwargs):
        extra = set(kwargs) - {"sample_weight"}
        if extra:
            raise TypeError("unexpected fit parameters %r" % sorted(extra))
        return RecordingRegressor.fit(self, X, y, kwargs.get("sample_weight"))


class KwargsClassifier(CentroidClassifier):
    """same for a classifier: weighted nearest centroid, weights only through **kwargs"""

    def fit(self, X, y, **kwargs):
        extra = set(kwargs) - {"sample_weight"}
        if extra:
            raise TypeError("unexpected fit parameters %r" % sorted(extra))
        self.seen_w_ = None if kwargs.get("sample_weight") is None else np.array(kwargs["sample_weight"], dtype=np.float64, copy=True)
        return CentroidClassifier.fit(self, X, y, kwargs.get("sample_weight"))


class SkewedClassifier(CentroidClassifier):
    """a binary classifier whose decision_function is NOT the logit of its predict_proba (bagged or calibrated models, SVC with
    probability=True are like that): thresholding one or the other gives different answers in a band"""

    def __init__(self, scale=1.0, shift=0.75):
        super().__init__(scale=scale)
        self.shift = shift

    def decision_function(self, X):
        return CentroidClassifier.decision_function(self, X) + self.shift


class StickyRegressor(BaseEstimator, RegressorMixin):
    """one-feature least squares with a `warm_start` flag that behaves like a forest asked to keep its trees: a second fit of the SAME
    object learns nothing new.  Code that fits one clone per model it needs never notices the flag."""

    def __init__(self, warm_start=False):
        self.warm_start = warm_start

    def fit(self, X, y, sample_weight=None):
        if self.warm_start and hasattr(self, "coef_"):
            return self
        X = np.asarray(X, dtype=np.float64).reshape(len(y), -1)
        y = np.asarray(y, dtype=np.float64)
        x = X[:, 0]
        vx = float(((x - x.mean()) ** 2).sum())
        self.coef_ = float(((x - x.mean()) * (y - y.mean())).sum() / vx) if vx > 0 else 0.0
        self.intercept_ = float(y.mean() - self.coef_ * x.mean())
        self.n_features_in_ = X.shape[1]
        return self

    def predict(self, X):
        X = np.asarray(X, dtype=np.float64)
        return self.intercept_ + self.coef_ * X.reshape(X.shape[0], -1)[:, 0]


class DomainClassifier(CentroidClassifier):
    """a model that refuses to extrapolate: any row outside the box of its own training rows (widened by one range on each side) raises
    ValueError in every prediction method, as a spline with extrapolation='error' does.  A model trained on few rows has a narrower domain
    than one trained on all of them."""

    def fit(self, X, y, sample_weight=None):
        CentroidClassifier.fit(self, X, y, sample_weight)
        X = np.asarray(X, dtype=np.float64)
        span = np.maximum(np.ptp(X, axis=0), 1.0)
        self.lo_, self.hi_ = X.min(axis=0) - span, X.max(axis=0) + span
        return self

    def _inside(self, X):
        X = np.asarray(X, dtype=np.float64)
        if X.size and (np.any(X < self.lo_) or np.any(X > self.hi_)):
            raise ValueError("DomainClassifier: a row lies outside the training domain")
        return X

    def decision_function(self, X):
        return CentroidClassifier.decision_function(self, self._inside(X))

    def predict_proba(self, X):
        return CentroidClassifier.predict_proba(self, self._inside(X))

    def predict(self, X):
        return self.classes_[np.argmax(CentroidClassifier.predict_proba(self, self._inside(X)), axis=1)]


class BiasedClassifier(CentroidClassifier):
    """a classifier whose predict is NOT the argmax of its predict_proba (a decision threshold moved on purpose, as
    FixedThresholdClassifier or a cost-sensitive rule do): the last class in classes_ wins as soon as its probability reaches a quarter
    of the best one"""

    def predict(self, X):
        P = self.predict_proba(X)
        win = np.argmax(P, axis=1)
        last = P.shape[1] - 1
        win[P[:, last] >= 0.25 * P.max(axis=1)] = last
        return self.classes_[win]
