"""Runner core: clauses, violations, sharded Hypothesis execution, evidence, replay.

A property module defines

    PROPERTY    = "C07"
    RULE        = "how cases are generated and what makes one non-trivial"
    ASSUMPTIONS = [...]
    CLAUSES     = [Clause(...), ...]

A clause owns a Hypothesis strategy producing a JSON-serialisable *case* and a pure
function ``check(case) -> Outcome``; replay needs no Hypothesis at all.
"""
from . import loader  # noqa: F401  (must come first: pins threads before numpy)

import hashlib
import json
import math
import os
import sys
import time
import traceback

REPO = loader.REPO
VERIF = loader.VERIF


# --------------------------------------------------------------------------- errors
class Violation(Exception):
    """the property does not hold on this case.

    sig   : failure class computed by the oracle (stable, used for bucketing)
    facts : small dict of facts about the case, matched by known-finding predicates
    """

    def __init__(self, sig, msg="", facts=None):
        super().__init__("%s: %s" % (sig, msg))
        self.sig = sig
        self.msg = msg
        self.facts = dict(facts or {})


class Outcome:
    __slots__ = ("labels", "nontrivial", "key", "detail")

    def __init__(self, labels=(), nontrivial=True, key=None, detail=None):
        self.labels = tuple(sorted(set(labels)))
        self.nontrivial = bool(nontrivial)
        self.key = key
        self.detail = detail


def require(cond, sig, msg="", facts=None):
    if not cond:
        raise Violation(sig, msg, facts)


class Clause:
    def __init__(self, name, check, strategy=None, cases=None, quick=200, thorough=2000,
                 quick_shards=4, thorough_shards=16, doc="", level="exploration",
                 exhaustive=False, budget_s=None):
        self.name = name
        self.check = check
        self.strategy = strategy      # callable(tier) -> hypothesis strategy
        self.cases = cases            # callable(tier) -> iterable of cases (enumeration)
        self.quick = quick
        self.thorough = thorough
        self.quick_shards = quick_shards
        self.thorough_shards = thorough_shards
        self.doc = doc
        self.level = level
        self.exhaustive = exhaustive
        self.budget_s = budget_s      # dict tier -> seconds per shard (soft)


# --------------------------------------------------------------------------- helpers
def canon(case):
    return json.dumps(case, sort_keys=True, default=_json_default, separators=(",", ":"))


def _json_default(o):
    try:
        import numpy as np
        if isinstance(o, np.generic):
            return o.item()
        if isinstance(o, np.ndarray):
            return o.tolist()
    except ImportError:
        pass
    if isinstance(o, (set, frozenset)):
        return sorted(o)
    if isinstance(o, tuple):
        return list(o)
    return repr(o)


def case_hash(x):
    return hashlib.sha1(canon(x).encode()).hexdigest()[:16]


def derive_seed(*parts):
    h = hashlib.sha256(":".join(str(p) for p in parts).encode()).hexdigest()
    return int(h[:12], 16)


def _is_repo_file(fn):
    if not fn:
        return False
    if fn.startswith("<"):
        return False
    a = os.path.abspath(fn) if os.path.isabs(fn) else fn
    if a.startswith(REPO + os.sep):
        return True
    bd = loader.STATE.get("build_dir")
    if bd and a.startswith(bd + os.sep):
        return True
    # Cython tracebacks carry relative names such as mlinsights/mlmodel/x.pyx
    if not os.path.isabs(fn) and fn.replace("\\", "/").startswith("mlinsights/"):
        return True
    return False


def repo_frame(exc):
    """innermost frame of the traceback that lies in the tree under test, or None"""
    tb = exc.__traceback__
    last = None
    while tb is not None:
        code = tb.tb_frame.f_code
        if _is_repo_file(code.co_filename):
            mod = os.path.splitext(os.path.basename(code.co_filename))[0]
            last = "%s.%s" % (mod, code.co_name)
        elif last is not None and os.path.abspath(code.co_filename).startswith(VERIF + os.sep):
            # the code under test called back into a harness estimator which then failed:
            # that is a harness problem, not a defect of the tree under test
            if not getattr(exc, "vf_expected", False):
                last = None
        tb = tb.tb_next
    return last


def exc_violation(exc, prefix="raises", facts=None):
    """turn an exception raised by the code under test into a Violation"""
    where = repo_frame(exc) or "?"
    msg = "%s: %s" % (type(exc).__name__, str(exc)[:300])
    return Violation("%s:%s@%s" % (prefix, type(exc).__name__, where), msg, facts)


def case_size(case):
    return len(canon(case))


# --------------------------------------------------------------------------- known findings
def load_known():
    p = os.path.join(VERIF, "known_findings.json")
    if not os.path.exists(p):
        return []
    with open(p) as f:
        return json.load(f).get("findings", [])


def _match_where(where, facts):
    for k, v in (where or {}).items():
        if k.endswith("__ge"):
            if not (k[:-4] in facts and facts[k[:-4]] >= v):
                return False
        elif k.endswith("__in"):
            if not (k[:-4] in facts and facts[k[:-4]] in v):
                return False
        elif k.endswith("__ne"):
            if not (k[:-4] in facts and facts[k[:-4]] != v):
                return False
        else:
            if facts.get(k, None) != v:
                return False
    return True


def known_match(known, prop, clause, viol):
    """returns the 'known' (unrepaired) entry covering this violation, or None.
    'fixed' entries suppress nothing."""
    for e in known:
        if e.get("status") != "known":
            continue
        if e.get("property") != prop:
            continue
        if e.get("clause") not in (None, clause):
            continue
        if e.get("signature") != viol.sig:
            continue
        if _match_where(e.get("where"), viol.facts):
            return e
    return None


# --------------------------------------------------------------------------- shard worker
class ShardResult(dict):
    pass


def _sample_trim(case, limit=1500):
    s = canon(case)
    if len(s) <= limit:
        return json.loads(s)
    return {"truncated_case_json": s[:limit] + "..."}


def run_shard(task):
    """executed in a worker process; returns a plain dict"""
    (modname, clause_name, tier, shard, nshards, n_examples, seed, budget_s) = task
    import importlib
    t0 = time.time()
    res = dict(clause=clause_name, shard=shard, evaluations=0, gen_evaluations=0, labels={},
               nontrivial_keys=[], samples=[], failures={}, known_hits={}, harness_error=None,
               skipped_budget=0, refused=0, wall_s=0.0, seed=seed, exhaustive_done=None,
               health=None)
    try:
        mod = importlib.import_module(modname)
        clause = [c for c in mod.CLAUSES if c.name == clause_name][0]
        known = load_known()
        prop = mod.PROPERTY
        nontrivial = set()
        state = dict(first_fail_t=None, budget_hit=False)
        shrink_budget = 25.0 if tier == "quick" else 90.0

        def record_failure(v, case):
            sz = case_size(case)
            cur = res["failures"].get(v.sig)
            if cur is None or sz < cur["size"]:
                res["failures"][v.sig] = dict(sig=v.sig, msg=v.msg, facts=v.facts, size=sz,
                                              case=json.loads(canon(case)))

        def one(case, counting=True):
            """returns True when the case passes (or is a known finding)"""
            now = time.time()
            if budget_s is not None and now - t0 > budget_s and state["first_fail_t"] is None:
                res["skipped_budget"] += 1
                state["budget_hit"] = True
                return True
            if state["first_fail_t"] is not None and now - state["first_fail_t"] > shrink_budget:
                state["budget_hit"] = True
                return True
            res["evaluations"] += 1
            try:
                with sk_config(case):
                    out = clause.check(case)
            except Violation as v:
                k = known_match(known, prop, clause_name, v)
                if k is not None:
                    kh = res["known_hits"].setdefault(k["id"], dict(count=0, what=k.get("what", ""), sample=None))
                    kh["count"] += 1
                    if kh["sample"] is None:
                        kh["sample"] = _sample_trim(case)
                    res["labels"]["known-finding"] = res["labels"].get("known-finding", 0) + 1
                    return True
                record_failure(v, case)
                if state["first_fail_t"] is None:
                    state["first_fail_t"] = time.time()
                raise
            except Exception as e:  # noqa: BLE001
                if repo_frame(e) is not None:
                    v = exc_violation(e)
                    k = known_match(known, prop, clause_name, v)
                    if k is not None:
                        kh = res["known_hits"].setdefault(k["id"], dict(count=0, what=k.get("what", ""), sample=None))
                        kh["count"] += 1
                        if kh["sample"] is None:
                            kh["sample"] = _sample_trim(case)
                        return True
                    record_failure(v, case)
                    if state["first_fail_t"] is None:
                        state["first_fail_t"] = time.time()
                    raise v from e
                res["harness_error"] = "".join(traceback.format_exception(type(e), e, e.__traceback__))[-4000:]
                raise
            if out is None:
                out = Outcome()
            for lab in out.labels:
                res["labels"][lab] = res["labels"].get(lab, 0) + 1
            if isinstance(case, dict) and "sk_config" in case:
                lab = "sklearn-config:" + (",".join(sorted(case["sk_config"])) if case["sk_config"] else "default")
                res["labels"][lab] = res["labels"].get(lab, 0) + 1
            if out.nontrivial:
                nontrivial.add(case_hash(out.key if out.key is not None else case))
                state["nt_seen"] = state.get("nt_seen", 0) + 1
                # Hypothesis starts with minimal examples: samples are taken further into the run
                if state["nt_seen"] in (1, 25, 120) and len(res["samples"]) < 3:
                    res["samples"].append(_sample_trim(case))
            elif len(res["samples"]) == 0 and res["evaluations"] > 20:
                pass
            return True

        if clause.cases is not None:
            # finite enumeration, sharded by index
            n = 0
            for i, case in enumerate(clause.cases(tier)):
                if i % nshards != shard:
                    continue
                n += 1
                try:
                    one(case)
                except Violation:
                    # enumeration: keep going, but stop recording after many
                    if sum(1 for _ in res["failures"]) > 20:
                        break
                    state["first_fail_t"] = None
            res["exhaustive_done"] = not state["budget_hit"]
        else:
            import hypothesis
            from hypothesis import HealthCheck, Phase, settings, given, seed as hseed
            strat = clause.strategy(tier)
            phases = [Phase.generate, Phase.shrink]
            sett = settings(max_examples=n_examples, database=None, deadline=None,
                            derandomize=False, report_multiple_bugs=False, phases=phases,
                            suppress_health_check=[HealthCheck.too_slow, HealthCheck.data_too_large,
                                                   HealthCheck.large_base_example],
                            print_blob=False, verbosity=hypothesis.Verbosity.quiet)

            @hseed(seed)
            @sett
            @given(strat)
            def test(case):
                one(case)

            try:
                test()
            except Violation:
                pass
            except hypothesis.errors.FailedHealthCheck as e:
                res["health"] = str(e)[:2000]
            except (hypothesis.errors.Flaky, hypothesis.errors.FlakyFailure) as e:
                if not (state["budget_hit"] and res["failures"]):
                    # a check that is not a pure function of its case is a harness problem
                    if not res["failures"]:
                        res["harness_error"] = "Flaky: " + str(e)[:2000]
            except BaseExceptionGroup as e:  # noqa: F821
                if not res["failures"] and res["harness_error"] is None:
                    res["harness_error"] = "".join(traceback.format_exception(type(e), e, e.__traceback__))[-4000:]
            except Exception as e:  # noqa: BLE001
                if res["harness_error"] is None and not res["failures"]:
                    res["harness_error"] = "".join(traceback.format_exception(type(e), e, e.__traceback__))[-4000:]
        res["nontrivial_keys"] = sorted(nontrivial)
    except Exception as e:  # noqa: BLE001
        res["harness_error"] = "".join(traceback.format_exception(type(e), e, e.__traceback__))[-4000:]
    res["wall_s"] = time.time() - t0
    return res


# --------------------------------------------------------------------------- replay
def replay_file(mod, path, quiet=False):
    """returns (status, info): status in pass | violation | known | harness"""
    with open(path) as f:
        doc = json.load(f)
    clause = [c for c in mod.CLAUSES if c.name == doc["clause"]]
    if not clause:
        return "harness", "unknown clause %r in %s" % (doc["clause"], path)
    clause = clause[0]
    known = load_known()
    try:
        with sk_config(doc["case"]):
            clause.check(doc["case"])
    except Violation as v:
        k = known_match(known, mod.PROPERTY, clause.name, v)
        if k is not None:
            return "known", (k, v)
        return "violation", v
    except Exception as e:  # noqa: BLE001
        if repo_frame(e) is not None:
            v = exc_violation(e)
            k = known_match(known, mod.PROPERTY, clause.name, v)
            if k is not None:
                return "known", (k, v)
            return "violation", v
        return "harness", "".join(traceback.format_exception(type(e), e, e.__traceback__))
    return "pass", None


def write_replay(prop, clause, fail, outdir=None):
    outdir = outdir or os.environ.get("VF_OUT") or os.path.join(VERIF, "out", "replay")
    os.makedirs(outdir, exist_ok=True)
    name = "%s-%s-%s.json" % (prop, clause, hashlib.sha1(fail["sig"].encode()).hexdigest()[:8])
    path = os.path.join(outdir, name)
    with open(path, "w") as f:
        json.dump(dict(property=prop, clause=clause, signature=fail["sig"], message=fail["msg"],
                       facts=fail["facts"], case=fail["case"]), f, indent=1, sort_keys=True,
                  default=_json_default)
    return path


def np_scalars(params, on=True):
    """hyper-parameters as NumPy scalars (numpy.bool_, numpy.int64, numpy.float64) instead of Python ones: what a parameter grid built
    from arrays, or a flag computed from data, hands to a constructor; same configuration, same statement"""
    if not on:
        return dict(params)
    import numpy as np
    out = {}
    for k, v in params.items():
        if isinstance(v, bool):
            out[k] = np.bool_(v)
        elif isinstance(v, int):
            out[k] = np.int64(v)
        elif isinstance(v, float):
            out[k] = np.float64(v)
        else:
            out[k] = v
    return out


SK_CONFIGS = [None, None, None, dict(working_memory=1e-3), dict(working_memory=1e-4), dict(assume_finite=True), dict(enable_metadata_routing=True)]


def sk_config(case):
    """context manager: the scikit-learn global configuration of the case (sklearn.set_config options a user may have changed: a small
    working_memory, assume_finite, metadata routing).  The listed statements do not depend on it."""
    import contextlib
    cfg = case.get("sk_config") if isinstance(case, dict) else None
    if not cfg:
        return contextlib.nullcontext()
    import sklearn
    return sklearn.config_context(**cfg)


def with_sk(strategy):
    """adds a scikit-learn global configuration (None three times out of seven) to the dict cases of a strategy"""
    from hypothesis import strategies as st
    return st.builds(lambda c, k: dict(c, sk_config=k), strategy, st.sampled_from(SK_CONFIGS))


COPIES = [None, None, None, "pickle", "deepcopy", "joblib"]


def round_trip(obj, how):
    """the object after a serialisation round trip (None: the object itself).  A copy is documented to be interchangeable with the object
    (pickle / joblib persistence, copy.deepcopy as used by clone for non-estimator parameters): every oracle applies to it unchanged."""
    if not how:
        return obj
    if how == "pickle":
        import pickle
        return pickle.loads(pickle.dumps(obj))
    if how == "deepcopy":
        import copy
        return copy.deepcopy(obj)
    if how == "joblib":
        import io
        import joblib
        buf = io.BytesIO()
        joblib.dump(obj, buf)
        buf.seek(0)
        return joblib.load(buf)
    raise KeyError(how)


def build_via(cls, params, via=None, alt=None):
    """the configured object, built by the constructor (via falsy) or built with OTHER values (`alt`, default: the class defaults) and
    then configured with set_params(**params) - what clone(est).set_params(**candidate) of a grid search, or a Pipeline's nested keys, do.
    scikit-learn's contract makes the two indistinguishable once fit is called."""
    if not via:
        return cls(**params)
    obj = cls(**(alt or {}))
    obj.set_params(**params)
    return obj


def with_np(strategy):
    """adds the flag `np_params` (one case in three) to the dict cases of a strategy"""
    from hypothesis import strategies as st
    return st.builds(lambda c, f: dict(c, np_params=f), strategy, st.sampled_from([False, False, True]))


# --------------------------------------------------------------------------- main driver
def _pool(n):
    """fork pool whose workers are NOT daemonic: joblib answers effective_n_jobs()==1 inside a daemonic process, so code that sizes its
    work by effective_n_jobs would silently run its sequential branch in the shards and its parallel branch for a real caller"""
    import multiprocessing as mp
    import multiprocessing.pool
    ctx = mp.get_context("fork")

    class _Process(ctx.Process):
        @property
        def daemon(self):
            return False

        @daemon.setter
        def daemon(self, value):
            pass

    class _Context(type(ctx)):
        Process = _Process

    return multiprocessing.pool.Pool(n, maxtasksperchild=1, context=_Context())


def run_property(modname, tier, seed, replay=None, only_clause=None, jobs=None, scale=1.0):
    import importlib
    import multiprocessing as mp
    t0 = time.time()
    mod = importlib.import_module(modname)
    prop = mod.PROPERTY
    loader.check_all_origins()
    out_lines = []

    if replay is not None:
        status, info = replay_file(mod, replay)
        if status == "pass":
            print("replay %s: property holds on this case" % replay)
            return 0
        if status == "known":
            k, v = info
            print("KNOWN-FINDING: property=%s %s" % (prop, k.get("what", v.sig)))
            return 0
        if status == "violation":
            print("violation %s" % info)
            print("VIOLATION property=%s replay=%s" % (prop, os.path.abspath(replay)))
            return 1
        print("HARNESS ERROR\n%s" % info)
        return 2

    violations = []     # (clause, fail dict, path)
    known_lines = {}
    harness_errors = []
    # 1. regression tier
    rdir = os.path.join(VERIF, "replays", prop)
    regression = dict(files=0, passed=0, known=0)
    if os.path.isdir(rdir) and only_clause is None:
        for fn in sorted(os.listdir(rdir)):
            if not fn.endswith(".json"):
                continue
            path = os.path.join(rdir, fn)
            status, info = replay_file(mod, path)
            regression["files"] += 1
            if status == "pass":
                regression["passed"] += 1
            elif status == "known":
                k, v = info
                regression["known"] += 1
                known_lines[k["id"]] = k.get("what", v.sig)
            elif status == "violation":
                with open(path) as f:
                    doc = json.load(f)
                violations.append((doc["clause"], dict(sig=info.sig, msg=info.msg, facts=info.facts,
                                                       case=doc["case"], size=0), path))
            else:
                harness_errors.append("replay %s: %s" % (path, info))

    # 2. generated search
    tasks = []
    clauses = [c for c in mod.CLAUSES if only_clause in (None, c.name)]
    for c in clauses:
        n = c.quick if tier == "quick" else c.thorough
        ns = c.quick_shards if tier == "quick" else c.thorough_shards
        n = max(1, int(n * scale))
        ns = max(1, min(ns, n))
        budget = None
        if c.budget_s:
            budget = c.budget_s.get(tier)
        if budget is None:
            budget = 150.0 if tier == "quick" else 1500.0
        per = int(math.ceil(n / ns))
        for s in range(ns):
            tasks.append((modname, c.name, tier, s, ns, per, derive_seed(seed, prop, c.name, s), budget))
    jobs = jobs or int(os.environ.get("VF_JOBS", "16"))
    if jobs > 1 and len(tasks) > 1:
        with _pool(min(jobs, len(tasks))) as pool:
            results = pool.map(run_shard, tasks, chunksize=1)
    else:
        results = [run_shard(t) for t in tasks]

    per_clause = {}
    for r in results:
        pc = per_clause.setdefault(r["clause"], dict(evaluations=0, labels={}, keys=set(), samples=[],
                                                     failures={}, known_hits={}, skipped_budget=0,
                                                     wall_s=0.0, shards=0, health=[], exhaustive=True))
        pc["evaluations"] += r["evaluations"]
        pc["shards"] += 1
        pc["skipped_budget"] += r["skipped_budget"]
        pc["wall_s"] = max(pc["wall_s"], r["wall_s"])
        for k, v in r["labels"].items():
            pc["labels"][k] = pc["labels"].get(k, 0) + v
        pc["keys"].update(r["nontrivial_keys"])
        if len(pc["samples"]) < 2 and r["samples"]:
            pc["samples"].append(r["samples"][-1])
        for sig, f in r["failures"].items():
            cur = pc["failures"].get(sig)
            if cur is None or f["size"] < cur["size"]:
                pc["failures"][sig] = f
        for kid, kh in r["known_hits"].items():
            cur = pc["known_hits"].setdefault(kid, dict(count=0, what=kh["what"], sample=kh["sample"]))
            cur["count"] += kh["count"]
        if r["harness_error"]:
            harness_errors.append("clause %s shard %s:\n%s" % (r["clause"], r["shard"], r["harness_error"]))
        if r["health"]:
            harness_errors.append("clause %s shard %s: hypothesis health check: %s" % (r["clause"], r["shard"], r["health"]))
        if r["exhaustive_done"] is False:
            pc["exhaustive"] = False

    for cname, pc in per_clause.items():
        for sig, f in sorted(pc["failures"].items()):
            path = write_replay(prop, cname, f)
            violations.append((cname, f, path))
        for kid, kh in pc["known_hits"].items():
            known_lines[kid] = kh["what"]

    # 3. evidence
    total_eval = sum(pc["evaluations"] for pc in per_clause.values())
    all_keys = set()
    for cname, pc in per_clause.items():
        all_keys.update(cname + ":" + k for k in pc["keys"])
    samples = []
    for cname, pc in per_clause.items():
        for s in pc["samples"][:2]:
            samples.append(dict(clause=cname, case=s))
    clause_table = {}
    cl_by_name = {c.name: c for c in mod.CLAUSES}
    for cname, pc in per_clause.items():
        ev = max(pc["evaluations"], 1)
        clause_table[cname] = dict(
            evaluations=pc["evaluations"], distinct_nontrivial=len(pc["keys"]), shards=pc["shards"],
            label_fraction={k: round(v / ev, 4) for k, v in sorted(pc["labels"].items())},
            skipped_for_budget=pc["skipped_budget"], max_shard_wall_s=round(pc["wall_s"], 1),
            violations=sorted(pc["failures"]), known_finding_hits={k: v["count"] for k, v in pc["known_hits"].items()},
            doc=cl_by_name[cname].doc, level=cl_by_name[cname].level,
            exhaustive=bool(cl_by_name[cname].exhaustive and pc["exhaustive"] and cl_by_name[cname].cases is not None))
    exhaustive_all = bool(clause_table) and all(v["exhaustive"] for v in clause_table.values())
    level = getattr(mod, "LEVEL", "exploration")
    evidence = dict(
        property_id=prop, tier=tier, seed=int(seed), level=level,
        coverage=dict(evaluations=int(total_eval), distinct_nontrivial=len(all_keys),
                      rule=mod.RULE, samples=samples[:12], exhaustive=exhaustive_all,
                      clauses=clause_table, regression_replays=regression,
                      loader=loader.describe(),
                      tolerances=getattr(mod, "TOLERANCES", {}),
                      excluded_by_construction=getattr(mod, "EXCLUDED", {})),
        assumptions=list(getattr(mod, "ASSUMPTIONS", [])),
        wall_s=round(time.time() - t0, 2), violations=len(violations))
    if only_clause is None and os.environ.get("VF_NO_EVIDENCE") != "1":
        edir = os.path.join(VERIF, "evidence")
        os.makedirs(edir, exist_ok=True)
        with open(os.path.join(edir, prop + ".json"), "w") as f:
            json.dump(evidence, f, indent=1, sort_keys=True, default=_json_default)

    # 4. report
    for cname, ct in clause_table.items():
        print("  clause %-28s eval=%-7d distinct_nontrivial=%-6d wall=%5.1fs%s" % (
            cname, ct["evaluations"], ct["distinct_nontrivial"], ct["max_shard_wall_s"],
            "  budget-skipped=%d" % ct["skipped_for_budget"] if ct["skipped_for_budget"] else ""))
    for kid, what in sorted(known_lines.items()):
        print("KNOWN-FINDING: property=%s %s" % (prop, what))
    if harness_errors:
        print("HARNESS ERROR (exit 2):")
        for h in harness_errors[:5]:
            print(h)
    for cname, f, path in violations:
        print("  violation clause=%s %s" % (cname, ("%s: %s" % (f["sig"], f["msg"]))[:600]))
        print("VIOLATION property=%s replay=%s" % (prop, path))
    print("%s tier=%s seed=%s evaluations=%d distinct_nontrivial=%d violations=%d%s wall=%.1fs" % (
        prop, tier, seed, total_eval, len(all_keys), len(violations), " HARNESS-ERRORS=%d" % len(harness_errors) if harness_errors else "", time.time() - t0))
    if violations:
        return 1
    if harness_errors:
        return 2
    return 0
