"""Loader: makes the code under /repo (or $VF_REPO) importable as it stands.

* builds the six Cython extension modules of the *current* tree into
  /verif/.build/<hash of *.pyx, *.pxd>/ (harness side, nothing is written in the repo),
* installs the import shim ``sklearn.utils._joblib`` (Parallel / delayed from joblib,
  the very objects scikit-learn used to re-export),
* installs a meta-path finder that resolves the extension module names to the freshly
  built shared objects,
* puts the repo root first on sys.path so the REAL python sources are imported,
* asserts that every imported ``mlinsights.*`` module lives under the repo root or the
  build directory (a different mlinsights wheel sits in site-packages).

Must be imported before numpy (it pins BLAS/OpenMP threads to one).
"""
import os

for _v in ("OMP_NUM_THREADS", "OPENBLAS_NUM_THREADS", "MKL_NUM_THREADS",
           "NUMEXPR_NUM_THREADS", "VECLIB_MAXIMUM_THREADS"):
    os.environ[_v] = "1"
os.environ.setdefault("PYTHONHASHSEED", "0")
os.environ.setdefault("SDPYTHON_MLINSIGHTS_VERIF", "1")

import fcntl
import hashlib
import importlib
import importlib.abc
import importlib.machinery
import importlib.util
import shutil
import subprocess
import sys
import sysconfig
import types
import warnings

VERIF = os.path.dirname(os.path.dirname(os.path.abspath(__file__)))
REPO = os.path.abspath(os.environ.get("VF_REPO", "/repo"))
BUILD_ROOT = os.environ.get("VF_BUILD_ROOT", os.path.join(VERIF, ".build"))

EXT_MODULES = [
    "mlinsights.mlmodel._piecewise_tree_regression_common",
    "mlinsights.mlmodel.piecewise_tree_regression_criterion",
    "mlinsights.mlmodel.piecewise_tree_regression_criterion_fast",
    "mlinsights.mlmodel.piecewise_tree_regression_criterion_linear",
    "mlinsights.mlmodel.direct_blas_lapack",
    "mlinsights.mltree._tree_digitize",
]

STATE = {"mode": {}, "build_hash": None, "build_dir": None, "repo": REPO}


class HarnessError(Exception):
    """raised for problems of the harness itself (exit code 2)"""


def _cython_sources():
    out = []
    for sub in ("mlmodel", "mltree"):
        d = os.path.join(REPO, "mlinsights", sub)
        if not os.path.isdir(d):
            continue
        for f in sorted(os.listdir(d)):
            if f.endswith((".pyx", ".pxd")):
                out.append(os.path.join(d, f))
    return out


def source_hash():
    h = hashlib.sha256()
    h.update(sys.version.encode())
    try:
        import Cython
        h.update(Cython.__version__.encode())
    except ImportError:
        pass
    for p in _cython_sources():
        h.update(os.path.relpath(p, REPO).encode())
        with open(p, "rb") as f:
            h.update(f.read())
    return h.hexdigest()[:16]


_SETUP = r'''
import sys, os, numpy
from setuptools import setup, Extension
from Cython.Build import cythonize
exts = []
for sub in ("mlmodel", "mltree"):
    d = os.path.join("mlinsights", sub)
    for f in sorted(os.listdir(d)):
        if f.endswith(".pyx"):
            name = "mlinsights.%s.%s" % (sub, f[:-4])
            exts.append(Extension(name, [os.path.join(d, f)],
                                  include_dirs=[numpy.get_include()],
                                  define_macros=[("NPY_NO_DEPRECATED_API", "NPY_1_7_API_VERSION")],
                                  extra_compile_args=["-O2"]))
setup(name="vfbuild", ext_modules=cythonize(exts, language_level=3, nthreads=0, quiet=True,
      compiler_directives={"boundscheck": False, "wraparound": False, "cdivision": True,
                           "cdivision_warnings": False, "embedsignature": True,
                           "initializedcheck": False}),
      script_args=["build_ext", "--inplace", "-j", "6"])
'''


def _so_path(build_dir, fullname):
    suffix = sysconfig.get_config_var("EXT_SUFFIX")
    parts = fullname.split(".")
    return os.path.join(build_dir, *parts[:-1], parts[-1] + suffix)


def ensure_build():
    """returns the build dir holding the .so of the current tree's pyx files"""
    h = source_hash()
    os.makedirs(BUILD_ROOT, exist_ok=True)
    build_dir = os.path.join(BUILD_ROOT, h)
    marker = os.path.join(build_dir, ".ok")
    if os.path.exists(marker):
        return h, build_dir
    lock = open(os.path.join(BUILD_ROOT, ".lock"), "w")
    fcntl.flock(lock, fcntl.LOCK_EX)
    try:
        if os.path.exists(marker):
            return h, build_dir
        if os.path.isdir(build_dir):
            shutil.rmtree(build_dir)
        # prune older builds (keep at most 3)
        olds = [os.path.join(BUILD_ROOT, d) for d in os.listdir(BUILD_ROOT)
                if os.path.isdir(os.path.join(BUILD_ROOT, d))]
        olds.sort(key=os.path.getmtime)
        for d in olds[:-2]:
            shutil.rmtree(d, ignore_errors=True)
        for sub in ("mlmodel", "mltree"):
            os.makedirs(os.path.join(build_dir, "mlinsights", sub))
            open(os.path.join(build_dir, "mlinsights", sub, "__init__.py"), "w").close()
        open(os.path.join(build_dir, "mlinsights", "__init__.py"), "w").close()
        for p in _cython_sources():
            rel = os.path.relpath(p, REPO)
            shutil.copy(p, os.path.join(build_dir, rel))
        with open(os.path.join(build_dir, "vf_setup.py"), "w") as f:
            f.write(_SETUP)
        env = dict(os.environ)
        env.pop("PYTHONPATH", None)
        r = subprocess.run([sys.executable, "vf_setup.py"], cwd=build_dir, env=env,
                           stdout=subprocess.PIPE, stderr=subprocess.STDOUT, text=True)
        missing = [m for m in EXT_MODULES if not os.path.exists(_so_path(build_dir, m))]
        if r.returncode != 0 or missing:
            log = os.path.join(BUILD_ROOT, "last_build_failure.log")
            with open(log, "w") as f:
                f.write(r.stdout)
            shutil.rmtree(build_dir, ignore_errors=True)
            raise HarnessError("cython build failed (rc=%s, missing=%s); log: %s\n%s"
                               % (r.returncode, missing, log, r.stdout[-3000:]))
        # drop intermediate files
        shutil.rmtree(os.path.join(build_dir, "build"), ignore_errors=True)
        for root, _, files in os.walk(build_dir):
            for f in files:
                if f.endswith(".c") or f.endswith(".cpp"):
                    os.remove(os.path.join(root, f))
        open(marker, "w").close()
        return h, build_dir
    finally:
        fcntl.flock(lock, fcntl.LOCK_UN)
        lock.close()


class _ExtFinder(importlib.abc.MetaPathFinder):
    def __init__(self, build_dir):
        self.build_dir = build_dir

    def find_spec(self, fullname, path=None, target=None):
        if fullname in EXT_MODULES:
            so = _so_path(self.build_dir, fullname)
            loader = importlib.machinery.ExtensionFileLoader(fullname, so)
            return importlib.util.spec_from_file_location(fullname, so, loader=loader)
        return None


def _install_joblib_shim():
    name = "sklearn.utils._joblib"
    if name in sys.modules:
        return
    try:
        importlib.import_module(name)
        return
    except ImportError:
        pass
    import joblib
    m = types.ModuleType(name)
    m.Parallel = joblib.Parallel
    m.delayed = joblib.delayed
    m.__file__ = "<vf shim>"
    sys.modules[name] = m
    import sklearn.utils
    sklearn.utils._joblib = m


_installed = False


def install(need_ext=True):
    """idempotent; returns STATE"""
    global _installed
    if _installed:
        return STATE
    if not os.path.isdir(os.path.join(REPO, "mlinsights")):
        raise HarnessError("no mlinsights package under %r" % REPO)
    if need_ext:
        h, bd = ensure_build()
        STATE["build_hash"], STATE["build_dir"] = h, bd
        sys.meta_path.insert(0, _ExtFinder(bd))
    # the repo first, site-packages' mlinsights wheel must never win
    for k in [k for k in sys.modules if k == "mlinsights" or k.startswith("mlinsights.")]:
        del sys.modules[k]
    if REPO in sys.path:
        sys.path.remove(REPO)
    sys.path.insert(0, REPO)
    warnings.filterwarnings("ignore")
    _install_joblib_shim()
    _installed = True
    return STATE


def _fallback_package(fullname):
    """register an empty package whose __path__ points at the repo directory, so
    that single modules can be imported even if the real __init__ is broken."""
    parts = fullname.split(".")
    d = os.path.join(REPO, *parts)
    m = types.ModuleType(fullname)
    m.__path__ = [d]
    m.__file__ = os.path.join(d, "__init__.py")
    m.__package__ = fullname
    sys.modules[fullname] = m
    if len(parts) > 1:
        parent = importlib.import_module(".".join(parts[:-1]))
        setattr(parent, parts[-1], m)
    return m


def subpackage(name):
    """import mlinsights.<name> through its real __init__, falling back to an empty
    package object (mode recorded) when the __init__ cannot be imported."""
    install()
    full = "mlinsights." + name
    if full in sys.modules:
        return sys.modules[full]
    try:
        m = importlib.import_module(full)
        STATE["mode"][name] = "real-init"
        return m
    except Exception as e:  # noqa: BLE001 - fall back, mode is reported
        for k in [k for k in sys.modules if k == full or k.startswith(full + ".")]:
            del sys.modules[k]
        STATE["mode"][name] = "fallback-init (%s: %s)" % (type(e).__name__, str(e)[:120])
        return _fallback_package(full)


def module(dotted):
    """import mlinsights.<dotted> (e.g. 'mlmodel.kmeans_l1') from the tree under test"""
    install()
    parts = dotted.split(".")
    if len(parts) > 1:
        subpackage(parts[0])
    m = importlib.import_module("mlinsights." + dotted)
    check_origin(m)
    return m


def check_origin(m):
    f = getattr(m, "__file__", None)
    if f is None:
        return
    f = os.path.abspath(f)
    ok = f.startswith(REPO + os.sep)
    if STATE["build_dir"]:
        ok = ok or f.startswith(STATE["build_dir"] + os.sep)
    if not ok:
        raise HarnessError("module %s loaded from %s, not from the tree under test %s"
                           % (m.__name__, f, REPO))


def check_all_origins():
    for k, m in list(sys.modules.items()):
        if (k == "mlinsights" or k.startswith("mlinsights.")) and m is not None:
            check_origin(m)


def describe():
    return {"repo": REPO, "build_hash": STATE["build_hash"], "init_mode": dict(STATE["mode"])}
